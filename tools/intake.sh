#!/bin/bash
# tools/intake.sh <ID> <mN> "<needs to manifest>"   import a sub-agent's change from /tmp/mut/<ID>-out, confirm it in the
# scratch worktree /tmp/mut/<ID>, then run the property's quick check against it (applied to /repo and undone).
set -u
ID=$1; M=$2; NEEDS=$3
cd /verif
python3 tools/seeded.py import $ID $M /tmp/mut/$ID-out "$NEEDS" || exit 2
bash tools/verify_seeded.sh $ID $M
grep -q CONFIRMED=true seeded/$ID-$M/verify.log || { echo "NOT CONFIRMED"; tail -12 seeded/$ID-$M/verify.log; exit 1; }
python3 tools/seeded.py run $ID-$M
