#!/bin/bash
# tools/intake.sh <WT> <mN> "<needs to manifest>"   import a sub-agent's change from /tmp/mut/<WT>-out, confirm it in the
# scratch worktree /tmp/mut/<WT>, then run the property's quick check against it (applied to /repo and undone).
# <WT> is the property id, optionally followed by b (second agent of a round): C18b m5 -> seeded/C18-m5b
set -u
WT=$1; M=$2; NEEDS=$3
ID=${WT%b}; [ "$ID" != "$WT" ] && M=${M}b
cd /verif
python3 tools/seeded.py import $ID $M /tmp/mut/$WT-out "$NEEDS" || exit 2
bash tools/verify_seeded.sh $ID $M /tmp/mut/$WT
grep -q CONFIRMED=true seeded/$ID-$M/verify.log || { echo "NOT CONFIRMED"; tail -12 seeded/$ID-$M/verify.log; exit 1; }
python3 tools/seeded.py run $ID-$M
