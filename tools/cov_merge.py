#!/usr/bin/env python3
"""cov_merge.py <ID> <dir with *.gcov.json.gz> <out.json>   merge gcov output of one property's run
   cov_merge.py --summary <dir>                            union over properties; lists never-executed line ranges"""
import glob, gzip, json, os, sys

REPO = os.environ.get("VERIF_REPO", "/repo")


def merge(pid, d, out):
    files = {}
    for g in glob.glob(os.path.join(d, "*.gcov.json.gz")):
        j = json.load(gzip.open(g))
        for f in j.get("files", []):
            name = os.path.normpath(f["file"])
            if not name.startswith(REPO + "/"):
                continue
            rel = name[len(REPO) + 1:]
            e = files.setdefault(rel, {})
            for l in f["lines"]:
                n = l["line_number"]
                e[n] = e.get(n, 0) + l["count"]
    json.dump({"property": pid, "files": {k: {str(n): c for n, c in sorted(v.items())} for k, v in sorted(files.items())}}, open(out, "w"))


def ranges(ns):
    out, s, p = [], None, None
    for n in ns:
        if s is None:
            s = p = n
        elif n <= p + 2:
            p = n
        else:
            out.append((s, p)); s = p = n
    if s is not None:
        out.append((s, p))
    return ",".join("%d" % a if a == b else "%d-%d" % (a, b) for a, b in out)


def summary(d):
    union, per = {}, {}
    for p in sorted(glob.glob(os.path.join(d, "C*.json"))):
        j = json.load(open(p))
        for f, lines in j["files"].items():
            u = union.setdefault(f, {})
            for n, c in lines.items():
                u[int(n)] = u.get(int(n), 0) + c
                if c:
                    per.setdefault(f, {}).setdefault(int(n), set()).add(j["property"])
    tot = hit = 0
    for f in sorted(union):
        u = union[f]
        t = len(u); h = sum(1 for c in u.values() if c)
        tot += t; hit += h
        miss = sorted(n for n, c in u.items() if not c)
        print("%-36s %4d/%4d  never: %s" % (f, h, t, ranges(miss)))
    print("TOTAL %d/%d lines of %s reached by at least one check" % (hit, tot, REPO))


if __name__ == "__main__":
    if sys.argv[1] == "--summary":
        summary(sys.argv[2])
    else:
        merge(sys.argv[1], sys.argv[2], sys.argv[3])
