#!/usr/bin/env python3
"""tools/record_fix.py <property> "<needs to manifest>" "<what I ran>"
Records the newest commit of /repo (which must be a "fix:" commit) in known_findings.json ("fixed") and stores its
reverse patch as a regression mutant under seeded/FIX-<property>-<hash>/."""
import json, os, subprocess, sys

prop, needs, ran = sys.argv[1], sys.argv[2], sys.argv[3]
h = subprocess.run(["git", "-C", "/repo", "log", "--format=%h", "-1"], stdout=subprocess.PIPE, text=True).stdout.strip()
s = subprocess.run(["git", "-C", "/repo", "log", "--format=%s", "-1"], stdout=subprocess.PIPE, text=True).stdout.strip()
assert s.startswith("fix:"), s
k = json.load(open("/verif/known_findings.json"))
if not any(f["commit"] == h for f in k["fixed"]):
    k["fixed"].append({"property": prop, "commit": h, "what": s[5:], "line": "fixed: property=%s %s %s" % (prop, h, s[5:])})
json.dump(k, open("/verif/known_findings.json", "w"), indent=1)
sid = "FIX-%s-%s" % (prop, h)
d = "/verif/seeded/" + sid
os.makedirs(d, exist_ok=True)
open(d + "/patch.diff", "w").write(subprocess.run(["git", "-C", "/repo", "diff", h, h + "^"], stdout=subprocess.PIPE, text=True).stdout)
json.dump({"id": sid, "property": prop, "needs_to_manifest": "reverse of fix commit %s: %s" % (h, needs),
           "origin": "reverse patch of a fix: commit in /repo (re-introduces a genuine defect)", "patch": "patch.diff",
           "verified": {"scratch": {"confirmed": True, "what_i_ran": ran}}}, open(d + "/meta.json", "w"), indent=1)
print(sid)
