#!/usr/bin/env python3
"""Seeded-defect bookkeeping.

  tools/seeded.py import <ID> <m1|m2|...> <srcdir> "<what it needs to manifest>"
        copies patch.diff + demonstration into /verif/seeded/<ID>-<mN>/ and writes meta.json
  tools/seeded.py run [<seeded-id> ...] [--tier quick]
        for each seeded change: apply to /repo, run ./check <property> <tier>, ALWAYS undo, record result.json
  tools/seeded.py matrix
        prints which checks caught which changes (from the recorded result.json files)
Never commits anything to /repo.
"""
import json, os, shutil, signal, subprocess, sys, time

signal.signal(signal.SIGTERM, lambda *a: sys.exit(143))  # so that 'finally' still undoes the patch

ROOT = os.path.dirname(os.path.dirname(os.path.abspath(__file__)))
SEEDED = os.path.join(ROOT, "seeded")
REPO = "/repo"
SCRATCH = os.environ.get("SEEDED_SCRATCH")   # a scratch worktree of /repo's HEAD: patches are applied there and /repo is left alone


def sh(cmd, **kw):
    return subprocess.run(cmd, stdout=subprocess.PIPE, stderr=subprocess.STDOUT, text=True, **kw)


def repo_clean():
    r = sh(["git", "-C", REPO, "status", "--porcelain", "--untracked-files=no"])
    return r.stdout.strip() == ""


def cmd_import(pid, name, src, needs):
    dst = os.path.join(SEEDED, "%s-%s" % (pid, name))
    os.makedirs(dst, exist_ok=True)
    for f in os.listdir(src):
        p = os.path.join(src, f)
        if os.path.isfile(p) and os.path.getsize(p) < 2_000_000:
            shutil.copy(p, os.path.join(dst, f))
    meta = {"id": "%s-%s" % (pid, name), "property": pid, "needs_to_manifest": needs,
            "origin": "independent sub-agent given only the property text and a scratch worktree",
            "patch": "patch.diff", "verified": {}}
    mp = os.path.join(dst, "meta.json")
    if os.path.exists(mp):
        old = json.load(open(mp))
        meta["verified"] = old.get("verified", {})
    json.dump(meta, open(mp, "w"), indent=1)
    print("imported", dst)


def run_one(sid, tier, props=None):
    d = os.path.join(SEEDED, sid)
    meta = json.load(open(os.path.join(d, "meta.json")))
    patch = os.path.join(d, meta.get("patch", "patch.diff"))
    target = SCRATCH or REPO
    if SCRATCH:
        head = sh(["git", "-C", REPO, "rev-parse", "HEAD"]).stdout.strip()
        if not os.path.isdir(SCRATCH):
            sh(["git", "-C", REPO, "worktree", "add", "-f", "--detach", SCRATCH, head])
        sh(["git", "-C", SCRATCH, "checkout", "-q", "--", "."])
        sh(["git", "-C", SCRATCH, "checkout", "-q", "--detach", head])
    elif not repo_clean():
        print("refusing: /repo has uncommitted changes to tracked files")
        return None
    results = {}
    try:
        r = sh(["git", "-C", target, "apply", "--whitespace=nowarn", patch])
        if r.returncode != 0:
            print(sid, "patch does not apply:", r.stdout[-500:])
            return None
        for prop in (props or [meta["property"]]):
            t0 = time.time()
            env = dict(os.environ)
            env.setdefault("VERIF_BUDGET_S", "300")
            env["VERIF_EVIDENCE_DIR"] = os.path.join(ROOT, "work", "evidence-seeded")   # never touch the committed evidence
            if SCRATCH:
                env["VERIF_REPO"] = SCRATCH
                env["VERIF_BUILD"] = os.path.join("work", "build-seeded")
                env["VERIF_REPLAY_DIR"] = os.path.join(ROOT, "work", "replays-seeded")
            try:
                c = sh([os.path.join(ROOT, "check"), prop, tier], env=env, cwd=ROOT, timeout=1500)
            except subprocess.TimeoutExpired:
                sh(["pkill", "-f", "inosim worker"])
                results[prop] = {"exit": 2, "violations": 0, "clauses": [], "wall_s": 1500, "first": "", "tail": "timeout"}
                print(sid, prop, "TIMEOUT")
                continue
            viol = [l for l in c.stdout.splitlines() if l.startswith("VIOLATION")]
            clauses = sorted(set(l.split("clause=")[1].split()[0] for l in c.stdout.splitlines() if l.startswith("#   clause=")))
            results[prop] = {"exit": c.returncode, "violations": len(viol), "clauses": clauses, "wall_s": round(time.time() - t0, 1),
                             "first": viol[0] if viol else "", "tail": c.stdout[-300:] if c.returncode == 2 else ""}
            print("%-12s %-4s %s exit=%d violations=%d %s (%.0fs)" % (sid, prop, tier, c.returncode, len(viol), ",".join(clauses)[:120], time.time() - t0))
    finally:
        sh(["git", "-C", target, "checkout", "--", "."])
        # replay files produced against a mutated tree are not kept
        rp = os.path.join(ROOT, "work", "replays-seeded") if SCRATCH else os.path.join(ROOT, "replays")
        if os.path.isdir(rp):
            for f in os.listdir(rp):
                if f.endswith(".plan"):
                    os.remove(os.path.join(rp, f))
    meta.setdefault("verified", {})
    meta["verified"].setdefault("checks", {}).update({p: dict(v, tier=tier, repo_head=sh(["git", "-C", REPO, "rev-parse", "--short", "HEAD"]).stdout.strip()) for p, v in results.items()})
    json.dump(meta, open(os.path.join(d, "meta.json"), "w"), indent=1)
    return results


def main():
    a = sys.argv[1:]
    if not a:
        print(__doc__)
        return 2
    if a[0] == "import":
        cmd_import(a[1], a[2], a[3], a[4] if len(a) > 4 else "")
        return 0
    if a[0] == "run":
        tier = "quick"
        props = None
        ids = []
        i = 1
        while i < len(a):
            if a[i] == "--tier":
                tier = a[i + 1]; i += 2
            elif a[i] == "--props":
                props = a[i + 1].split(","); i += 2
            else:
                ids.append(a[i]); i += 1
        if not ids:
            ids = sorted(os.listdir(SEEDED))
        for sid in ids:
            if os.path.exists(os.path.join(SEEDED, sid, "meta.json")):
                run_one(sid, tier, props)
        return 0
    if a[0] == "md":
        print("| seeded change | property | what it needs to manifest | confirmed in scratch | caught by (quick tier) |")
        print("|---|---|---|---|---|")
        for sid in sorted(os.listdir(SEEDED)):
            mp = os.path.join(SEEDED, sid, "meta.json")
            if not os.path.exists(mp):
                continue
            meta = json.load(open(mp))
            ch = meta.get("verified", {}).get("checks", {})
            conf = meta.get("verified", {}).get("scratch", {}).get("confirmed")
            res = []
            for p_, v in sorted(ch.items()):
                if v["exit"] == 1:
                    res.append("%s: %s%s" % (p_, ", ".join(c.split(".", 1)[1] for c in v["clauses"])[:110], " [thorough tier only; missed by the quick tier]" if v.get("tier") == "thorough" else ""))
                elif v["exit"] == 0:
                    res.append("%s: **missed**" % p_)
                else:
                    res.append("%s: infra" % p_)
            if meta.get("status", "").startswith("obsolete"):
                res = ["obsolete (equivalent after fix da495d0; caught before it)"]
            print("| %s | %s | %s | %s | %s |" % (sid, meta["property"], meta.get("needs_to_manifest", "").replace("|", "/")[:230], "yes" if conf else "no", "; ".join(res) or "not run"))
        return 0
    if a[0] == "matrix":
        for sid in sorted(os.listdir(SEEDED)):
            mp = os.path.join(SEEDED, sid, "meta.json")
            if not os.path.exists(mp):
                continue
            meta = json.load(open(mp))
            ch = meta.get("verified", {}).get("checks", {})
            row = ["%s:%s" % (p, "CAUGHT(%s)" % ",".join(v["clauses"])[:80] if v["exit"] == 1 else ("MISSED" if v["exit"] == 0 else "INFRA")) for p, v in sorted(ch.items())]
            print("%-12s %s" % (sid, "  ".join(row) if row else "not run"))
        return 0
    return 2


if __name__ == "__main__":
    sys.exit(main())
