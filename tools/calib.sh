#!/bin/bash
# tools/calib.sh <ID> <tier> <seed> <runs-per-worker>   -- runs 16 workers directly, prints a compact summary
ID=$1; TIER=$2; SEED=$3; N=$4
OUT=/verif/work/calib-$ID
rm -rf "$OUT"; mkdir -p "$OUT"
pids=()
for w in $(seq 0 15); do
  ${INOSIM:-/verif/build/plain/inosim} worker $ID $TIER $SEED $w $N 16 $OUT/w$w $OUT/replays > $OUT/out$w.jsonl 2>/dev/null &
  pids+=($!)
done
for p in "${pids[@]}"; do wait $p; done
cat $OUT/out*.jsonl | python3 -c "
import sys,json,collections
rows=[json.loads(l) for l in sys.stdin if l.startswith('{\"t\":\"run\"')]
print('runs',len(rows),'violations',len([r for r in rows if r['status']=='violation']),'infra',len([r for r in rows if r['status']=='infra']),'discard',len([r for r in rows if r['status']=='discard']))
c=collections.Counter()
ex={}
for r in rows:
    if r['status'] in ('violation','infra'):
        k=r.get('clauses') or r.get('infra_msg','')[:60]
        c[k]+=1; ex.setdefault(k,(r.get('detail') or r.get('infra_msg',''))[:420])
for k,v in c.most_common(): print(v,k,'::',ex[k])
w=sorted(r['wall'] for r in rows); print('wall p50 %.2f max %.2f'%(w[len(w)//2],w[-1]))
"
