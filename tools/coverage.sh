#!/bin/bash
# tools/coverage.sh [ID ...]
# Reach measurement, not a verdict: builds the simulator with gcov instrumentation (V=cov), runs the quick tier of
# each property's check against it and records which lines of /repo/src and /repo/inc were executed.
# Output: work/cov/<ID>.json (file -> executed / never executed lines), work/cov/summary.txt.
set -u
cd "$(dirname "$0")/.."
ROOT=$PWD
IDS=${@:-C03 C04 C05 C08 C10 C11 C12 C13 C14 C15 C17 C18 C19 C20}
mkdir -p work/cov
make -s -j16 V=cov || exit 2
for id in $IDS; do
  find build/cov -name '*.gcda' -delete
  VERIF_VARIANT=cov VERIF_EVIDENCE_DIR=$ROOT/work/evidence-cov VERIF_VG_RUNS=0 VERIF_BUDGET_S=900 ./check $id quick > work/cov/$id.log 2>&1
  tail -1 work/cov/$id.log
  rm -rf work/cov/gcov-$id; mkdir -p work/cov/gcov-$id
  ( cd work/cov/gcov-$id && find $ROOT/build/cov/repo -name '*.gcda' | xargs gcov --json-format -p >/dev/null 2>&1 )
  python3 tools/cov_merge.py $id work/cov/gcov-$id work/cov/$id.json
  rm -rf work/cov/gcov-$id
done
python3 tools/cov_merge.py --summary work/cov > work/cov/summary.txt
tail -40 work/cov/summary.txt
