#!/usr/bin/env python3
"""Replaces the table at the end of DESIGN.md section 9 with the current output of tools/seeded.py md."""
import subprocess, os
ROOT = os.path.dirname(os.path.dirname(os.path.abspath(__file__)))
md = subprocess.run(["python3", os.path.join(ROOT, "tools", "seeded.py"), "md"], stdout=subprocess.PIPE, text=True).stdout
p = os.path.join(ROOT, "DESIGN.md")
s = open(p).read()
i = s.index("| seeded change | property | what it needs to manifest |")
open(p, "w").write(s[:i] + md)
print("table rows:", md.count("\n") - 2)
