#!/bin/bash
# tools/verify_seeded.sh <ID> <mN>
# Confirms a seeded change in its scratch worktree /tmp/mut/<ID> (never in /repo):
#  1. patch applies and builds, 2. the project's own tests still pass, 3. the demonstration FAILS with the
#  change, 4. and PASSES without it.  Writes /verif/seeded/<ID>-<mN>/verify.log and updates meta.json.
set -u
ID=$1; M=$2
WT=${3:-/tmp/mut/$ID}
SD=/verif/seeded/$ID-$M
LOG=$SD/verify.log
export XDG_DATA_HOME=$(mktemp -d)
cd "$WT" || exit 2
git checkout -q -- . 2>/dev/null
{
echo "== verify $ID-$M in $WT at $(git rev-parse --short HEAD)"
demo=""
for c in run.sh demo.sh demo.py; do [ -f "$SD/$c" ] && demo=$c && break; done
echo "demo script: $demo"
rundemo() {
  case "$demo" in
    *.py) ( cd "$WT" && timeout 1500 python3 "$SD/$demo" ) ;;
    *) ( cd "$WT" && timeout 1500 bash "$SD/$demo" ) ;;
  esac
}
git apply --whitespace=nowarn "$SD/patch.diff"; a=$?
echo "apply rc=$a"
cmake --build _build 2>&1 | tail -1; b=${PIPESTATUS[0]}
echo "build rc=$b"
ctest --test-dir _build 2>&1 | grep -E 'tests passed|tests failed'; t=${PIPESTATUS[0]}
echo "ctest rc=$t"
rundemo > "$SD/demo_with_patch.out" 2>&1; dw=$?
echo "demo with patch rc=$dw : $(tail -2 "$SD/demo_with_patch.out" | tr '\n' ' ' | cut -c1-200)"
git checkout -q -- .
cmake --build _build 2>&1 | tail -1
rundemo > "$SD/demo_without_patch.out" 2>&1; dn=$?
echo "demo without patch rc=$dn : $(tail -2 "$SD/demo_without_patch.out" | tr '\n' ' ' | cut -c1-200)"
ok=false
if [ $a -eq 0 ] && [ $b -eq 0 ] && [ $t -eq 0 ] && [ $dw -ne 0 ] && [ $dn -eq 0 ]; then ok=true; fi
echo "CONFIRMED=$ok"
python3 - "$SD/meta.json" $a $b $t $dw $dn $ok <<'EOF'
import json,sys
p=sys.argv[1]; m=json.load(open(p))
m.setdefault("verified",{})["scratch"]={"applies":sys.argv[2]=="0","builds":sys.argv[3]=="0","unit_tests_pass":sys.argv[4]=="0",
  "demo_fails_with_change":sys.argv[5]!="0","demo_passes_without":sys.argv[6]=="0","confirmed":sys.argv[7]=="true",
  "what_i_ran":"tools/verify_seeded.sh: git apply in scratch worktree, cmake --build, ctest, demonstration with and without the change"}
json.dump(m,open(p,"w"),indent=1)
EOF
} > "$LOG" 2>&1
rm -rf "$XDG_DATA_HOME"
tail -1 "$LOG"
