#!/usr/bin/env python3
"""Writes /verif/MANIFEST.json from the table below (kept next to the checks so that it stays current)."""
import json, os, subprocess

ROOT = os.path.dirname(os.path.dirname(os.path.abspath(__file__)))

NA = {
    "C01": "single map application is a pure function of (grid, offsets, data): no schedule, fault, clock or history for a simulator to decide (quantifier: inputs, configurations); exercised only incidentally by C03/C10",
    "C02": "statement about every float offset of a pure interpolation routine; decided by exhaustive enumeration/algebra, a different technique, not by simulated schedules or faults",
    "C06": "pure function (DFT identity) of profiles and impedance; nothing for a scheduler or fault injector to vary; C10 recomputes the convolution of every stored record only as an incidental cross-check",
    "C07": "pure Parseval identity between two loops over the same arrays (quantifier: inputs only)",
    "C09": "pure function of one grid's contents (normalisation, moments, copy); no history, schedule or fault dimension",
    "C16": "impedance models are closed-form functions of sample count and machine numbers (quantifier: inputs, configurations)",
}

# id -> (built?, level category, technique, level text, level note, design ref)
CLAIMED = {
    "C03": ("exploration", "deterministic simulation: history oracle over real main() runs from simulator-authored start files",
            "Seeded whole-program runs (real main(), simulated entropy/clock/planner) from simulator-authored start distributions; the recorded centroid history of every step is checked against the exact kick-drift recurrence, the first-order splitting bound, orbit closure and grid-centring invariance.",
            "Sampling of configurations and starting blobs; tolerances from an explicit discretisation-error model (DESIGN 4/6).", "4 C03"),
    "C04": ("exploration", "deterministic simulation: bounded-liveness (convergence within simulated damping times) oracle",
            "Pairs of seeded long runs from different initial sizes; the recorded bunch-length/energy-spread history must converge to the same limit near 1 at the configured rate and then stay constant; damping-only/diffusion-only/none variants are checked for monotonicity.",
            "Tolerances depend on grid spacing and stencil order (DESIGN 4); runs outside the explicit scheme's stable range are not generated.", "4 C04"),
    "C05": ("exploration", "deterministic simulation: stationary-state oracle over recorded history",
            "Seeded runs with a weak stable impedance until stationary; the recorded profile and wake potential of the last record must satisfy the Haissinski condition; non-stationary runs are discarded and counted.",
            "Stationarity detection and core selection are part of the oracle; tolerance calibrated with >=3x head-room (DESIGN 4/6).", "4 C05"),
    "C08": ("exploration", "deterministic simulation: refinement of the multi-bunch run against the single-bunch system",
            "API-mode histories (1-50 successive map applications on multi-bunch trains, per-bunch data and offset fields) are compared bit for bit with the single-bunch map; program-mode runs with identical bunches / empty buckets are compared with the single-bunch run.",
            "Sampling; bit-exact comparison within one binary.", "4 C08"),
    "C10": ("exploration", "deterministic simulation: record-level invariants over the durable results file vs an executable schedule/units model",
            "Seeded whole-program runs over the full option swarm (optionally ended by SIGINT); every record of the results file is checked against a reference model of the output schedule, the axes, projections, moments, wake convolution, CSR sum and unit factors re-derived independently in double precision.",
            "Sampling; tolerances are summation-error models (DESIGN 4).", "4 C10"),
    "C11": ("fault_enumeration", "deterministic simulation: stop/restart with only the results file surviving; all split points of short runs enumerated; start-file faults",
            "Leg 1 / leg 2 / uninterrupted triples as separate process lives; for short runs every split point is taken; loading and final-state equivalence are bit-exact without renormalisation; unusable start files (missing, empty, torn, garbage, multi-bunch, EIO) must be refused with a message before anything is simulated.",
            "Configurations sampled, split points enumerated; static RF and single bunch as the property implies.", "4 C11"),
    "C12": ("exploration", "deterministic simulation: observer-schedule independence, bit for bit, across process launches",
            "Groups of launches that differ only in observer schedule (outstep, SavePhaseSpace, tracking, verbosity, file names) must agree bit for bit in the final phase space and in every common record; repeated launches must be digest-equal.",
            "Sampling of physics configurations and schedules; same binary, same planner mode within a group.", "4 C12"),
    "C13": ("exploration", "deterministic simulation (thin): durable .cfg written by one process life and consumed by the next, generation chains",
            "Chains of launches g0 -> saved .cfg -> g1 -> ...; option getters and physics datasets of g1 must equal g0's, the saved file must be a fixed point; g0 may be killed by SIGINT right after the .cfg is written.",
            "Most of the deciding power is seeded generation of option assignments; the simulator contributes the relaunch/file layer only (DESIGN 4 C13).", "4 C13"),
    "C14": ("fault_enumeration", "deterministic simulation with fault injection: SIGINT raised at every hook point, inside every libhdf5 pwrite and inside every wall-clock read of sampled short runs",
            "For each sampled configuration every interrupt instant (all hook-point hits between the statements of main(), all pwrite calls of libhdf5, all wall-clock reads made inside the message routine, plus seeded pairs/triples) is enumerated; each interrupted run must exit 0, report Aborted, leave a readable structurally consistent file, have executed exactly the step in progress, equal bit for bit the run configured to stop at that step, and share all but the last record with the uninterrupted run.",
            "Interrupts inside non-I/O library calls are not simulated (the handler only sets a flag); configurations are sampled.", "4 C14"),
    "C15": ("exploration", "deterministic simulation: entropy seam, long particle histories, edge positions",
            "API-mode histories of tracked particles under all tracking models with the entropy source simulated; after every step coordinates must stay inside the grid; blob-centre vs particle flow (kicks, drift, static/dynamic RF, damping/diffusion step) and stochastic ensemble statistics are checked; program mode checks /Particles/data, the final particle record of interrupted runs, and particle-follows-charge through the real main loop.",
            "Statistical clauses use 4-sigma bounds on seeded ensembles.", "4 C15"),
    "C17": ("exploration", "deterministic simulation with fault injection under ASan/UBSan (+valgrind): input-file faults and configuration swarm on the real main()",
            "Sanitised whole-program launches over the documented configuration domain with damaged input files (truncated, empty, malformed, short/long tables, wrong-size / wrong-type / multi-bunch start files, edge particles, read errors), long histories past 2^k steps, and seeded API-harness histories of C08/C15/C18/C19 run in a child of the sanitised build; the process must end by itself with status 0/1, no sanitizer or valgrind report, and a message or normal completion.",
            "Sampling; uninitialised-value use is only visible in the valgrind tier.", "4 C17"),
    "C18": ("exploration", "deterministic simulation: seeded operation histories on the stateful field object vs a freshly constructed reference object",
            "Histories of Load/Wake/Pad/CSR operations on one ElectricField are compared bit for bit, after every operation, with a fresh object given the current profile; shrinking by ddmin on the op sequence.",
            "Both objects live in one process and obtain the same FFTW plan.", "4 C18"),
    "C19": ("exploration", "deterministic simulation: entropy seam; exactly-once RF records across output-flush schedules and interrupts",
            "Zero-amplitude dynamic RF vs static RF bit for bit (API and program mode); recorded modulation reproduces the applied kick; /RFKicks/data has exactly one row per executed step, equal to the reference run's rows whatever the flush pattern or interrupt; pure sinusoid has the configured amplitude and frequency.",
            "Sampling; noise values come from the simulated entropy stream.", "4 C19"),
    "C20": ("exploration", "deterministic simulation (thin): faulty config-file layer and launches vs a reference precedence model",
            "Seeded placements of options on command line / config file / aliases are compared with a 40-line reference model via getters and /Info/Parameters; config-layer faults (missing, directory, unreadable, empty, truncated, unknown key, malformed value) must stop the program with a message (and failure status where the property says so) before anything is simulated.",
            "Mostly seeded input generation; simulator contributes file faults and launches.", "4 C20"),
}


def built():
    exe = os.path.join(ROOT, "build", "plain", "inosim")
    subprocess.run(["make", "-s", "-j16", "V=plain"], cwd=ROOT, stdout=subprocess.DEVNULL, stderr=subprocess.DEVNULL)
    try:
        out = subprocess.run([exe, "list"], stdout=subprocess.PIPE, text=True).stdout.split()
        return set(out)
    except Exception:
        return set()


def main():
    have = built()
    override = os.environ.get("MANIFEST_CLAIM")
    if override:
        have = set(override.split(","))
    hooks_commits = subprocess.run(["git", "-C", "/repo", "log", "--format=%H", "--grep=^verif hook"], stdout=subprocess.PIPE, text=True).stdout.split()
    m = {
        "version": 1,
        "setup_cmd": "make -s -j16 V=plain && make -s -j16 V=asan && make -s -j16 V=vg",
        "hooks": {
            "guard": "INOVESA_VERIF",
            "enable": "the checks compile /repo/src/**/*.cpp themselves with -DINOVESA_VERIF (src/main.cpp additionally with -Dmain=inovesa_main); see /verif/Makefile",
            "baseline_off_cmd": "cmake -G Ninja -S /repo -B /repo/_build >/dev/null && cmake --build /repo/_build && ctest --test-dir /repo/_build -j8 --timeout 900",
            "source_commits": hooks_commits,
            "add_only": True,
        },
        "engines": [{
            "name": "inosim",
            "path": "/verif/sim",
            "serves_properties": sorted(p for p in CLAIMED if p in have),
            "kind_free_text": "deterministic simulator: seeded plans, fork-per-launch of the real main() behind entropy/clock/planner/file/SIGINT seams, API-mode op histories, reference models as oracles, greedy plan shrinking, replay files",
        }],
        "checks": [],
        "not_applicable": [],
        "notes": "See DESIGN.md. Evidence files are rewritten by every run of ./check. known_findings.json lists the two open findings (both C10) and the repaired defects (20 fix: commits in /repo). tools/seeded.py runs the checks against the seeded changes under /verif/seeded (DESIGN.md section 9).",
    }
    for pid in sorted(CLAIMED):
        cat, tech, text, note, ref = CLAIMED[pid]
        if pid not in have:
            m["not_applicable"].append({"property_id": pid, "reason": "claimed in DESIGN.md but its check is not built in this revision (no verdict is offered yet)"})
            continue
        m["checks"].append({
            "property_id": pid,
            "quick_cmd": "./check %s quick" % pid,
            "thorough_cmd": "./check %s thorough" % pid,
            "evidence_file": "/verif/evidence/%s.json" % pid,
            "replay_cmd_template": "./check replay {path}",
            "engine": "inosim",
            "level_claimed": {"category": cat, "text": text, "design_ref": "DESIGN.md section " + ref},
            "level_note": note,
            "technique": tech,
        })
    for pid in sorted(NA):
        m["not_applicable"].append({"property_id": pid, "reason": NA[pid]})
    with open(os.path.join(ROOT, "MANIFEST.json"), "w") as f:
        json.dump(m, f, indent=1)
    print("claimed:", [c["property_id"] for c in m["checks"]])
    print("not applicable / pending:", [c["property_id"] for c in m["not_applicable"]])


if __name__ == "__main__":
    main()
