# Builds the simulator from /repo's CURRENT working tree plus /verif/sim.
# Variants: plain (g++, the flags the project ships with) and asan (clang++ ASan+UBSan, used by C17).
REPO      ?= /repo
V         ?= plain
BUILD     ?= build
B         := $(BUILD)/$(V)

REPO_SRCS := $(shell find $(REPO)/src -name '*.cpp' | sort)
SIM_SRCS  := $(sort $(wildcard sim/*.cpp))
REPO_OBJS := $(patsubst $(REPO)/src/%.cpp,$(B)/repo/%.o,$(REPO_SRCS))
SIM_OBJS  := $(patsubst sim/%.cpp,$(B)/sim/%.o,$(SIM_SRCS))

DEFS := -DINOVESA_VERIF -DINOVESA_ENABLE_INTERRUPT=1 -DINOVESA_USE_HDF5=1 -DINOVESA_USE_OPENCL=0 \
        -DINOVESA_USE_OPENGL=0 -DINOVESA_USE_PNG=0 -DGIT_BRANCH=\"verif\" -DGIT_COMMIT=\"worktree\" \
        -DBOOST_FILESYSTEM_DYN_LINK -DBOOST_PROGRAM_OPTIONS_DYN_LINK -DBOOST_SYSTEM_DYN_LINK
INCS := -I$(B)/gen -I$(REPO)/inc -I/usr/include/hdf5/serial -Isim

ifeq ($(V),asan)
CXX      := clang++
CXXFLAGS := -std=c++14 -O1 -g -DNDEBUG -w -fsanitize=address,undefined -fno-sanitize=float-cast-overflow -fno-sanitize-recover=undefined -fno-omit-frame-pointer
LDSAN    := -fsanitize=address,undefined
else ifeq ($(V),cov)
# line coverage of /repo/src reached by the checks (tools/coverage.sh); not used by any verdict
CXX      := g++
CXXFLAGS := -std=c++14 -fext-numeric-literals -O0 -g -DNDEBUG -w --coverage
LDSAN    := --coverage
else ifeq ($(V),vg)
# for valgrind: no -march=native (valgrind 3.19 does not know all AVX-512 instructions)
CXX      := g++
CXXFLAGS := -std=c++14 -fext-numeric-literals -O1 -g -DNDEBUG -w
LDSAN    :=
else
CXX      := g++
CXXFLAGS := -std=c++14 -fext-numeric-literals -O2 -g1 -DNDEBUG -w -march=native
LDSAN    :=
endif

WRAPS := -Wl,--wrap=_ZNSt13random_device9_M_getvalEv -Wl,--wrap=_ZNSt6chrono3_V212system_clock3nowEv \
         -Wl,--wrap=fftwf_plan_dft_r2c_1d -Wl,--wrap=fftwf_plan_dft_c2r_1d -Wl,--wrap=fftwf_execute -Wl,--wrap=fftwf_destroy_plan \
         -Wl,--wrap=fftwf_import_wisdom_from_filename -Wl,--wrap=fftwf_export_wisdom_to_filename
LIBS  := -L/usr/lib/x86_64-linux-gnu/hdf5/serial -Wl,-rpath,/usr/lib/x86_64-linux-gnu/hdf5/serial \
         -lboost_filesystem -lboost_program_options -lboost_system -lfftw3f -lfftw3 -lhdf5_cpp -lhdf5 -ldl -lm

all: $(B)/inosim

$(B)/gen/InovesaConfig.hpp: $(REPO)/InovesaConfig.hpp.in $(REPO)/CMakeLists.txt
	@mkdir -p $(dir $@)
	@maj=$$(sed -n 's/^set *(INOVESA_VERSION_MAJOR *\(.*\))/\1/p' $(REPO)/CMakeLists.txt); \
	 min=$$(sed -n 's/^set *(INOVESA_VERSION_MINOR *\(.*\))/\1/p' $(REPO)/CMakeLists.txt); \
	 fix=$$(sed -n 's/^set *(INOVESA_VERSION_FIX *\(.*\))/\1/p' $(REPO)/CMakeLists.txt); \
	 sed -e "s/@INOVESA_VERSION_MAJOR@/$$maj/" -e "s/@INOVESA_VERSION_MINOR@/$$min/" -e "s/@INOVESA_VERSION_FIX@/$$fix/" $< > $@

$(B)/repo/main.o: $(REPO)/src/main.cpp $(B)/gen/InovesaConfig.hpp
	@mkdir -p $(dir $@)
	$(CXX) $(CXXFLAGS) $(DEFS) $(INCS) -Dmain=inovesa_main -MMD -MP -c $< -o $@

$(B)/repo/%.o: $(REPO)/src/%.cpp $(B)/gen/InovesaConfig.hpp
	@mkdir -p $(dir $@)
	$(CXX) $(CXXFLAGS) $(DEFS) $(INCS) -MMD -MP -c $< -o $@

$(B)/sim/%.o: sim/%.cpp $(B)/gen/InovesaConfig.hpp
	@mkdir -p $(dir $@)
	$(CXX) $(CXXFLAGS) $(DEFS) $(INCS) -DINOVESA_ALLOW_PS_RESET=1 -MMD -MP -c $< -o $@

$(B)/inosim: $(REPO_OBJS) $(SIM_OBJS)
	$(CXX) $(LDSAN) -rdynamic $(WRAPS) -o $@ $(REPO_OBJS) $(SIM_OBJS) $(LIBS)

-include $(REPO_OBJS:.o=.d) $(SIM_OBJS:.o=.d)

clean:
	rm -rf build

.PHONY: all clean
