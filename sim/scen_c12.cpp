// C12: observing the simulation does not change it; equal inputs give equal outputs.
// One physics configuration, k launches that differ ONLY in observer schedule; bit-for-bit comparison.
#include "common.hpp"
#include <cstring>

namespace sim {
namespace {

struct Variant { long outstep, saveps, fptrack; bool tracking, verbose; std::string output; int scribble = 0; long sigint = -1; };

struct C12 : Scenario {
    const char* id() const override { return "C12"; }
    long default_runs(const std::string& tier) const override { return tier == "quick" ? 64 : 10000; }
    const char* rule() const override {
        return "one evaluation = one group: a seeded physics configuration launched 4-8 times with different observer schedules "
               "(outstep incl. 0/1/>laststep, SavePhaseSpace, tracking file and model, verbosity, output name/directory) plus one "
               "repeated launch; distinct_nontrivial counts distinct schedule tuples (outstep class, SavePhaseSpace, tracking, verbose) "
               "combined with the physics class (wake, multibunch, renormalisation mode, dynamic RF)";
    }
    const char* measure() const override { return "distinct (schedule tuple x physics class) combinations launched"; }
    std::vector<std::string> assumptions() const override {
        return {"deterministic RF only (modulation allowed, noise not), as the property states",
                "all members of a group use the same planner mode (stub = FFTW_ESTIMATE, or real with wisdom created by the first member)",
                "bit-exact comparisons are between launches of the same binary on the same host"};
    }

    Plan generate(uint64_t seed, long, const std::string& tier) const override {
        Rng r(seed);
        Plan p;
        SwarmOpts o;
        o.allow_noise = false;
        o.max_grid = tier == "quick" ? 32 : 48;
        o.max_rot_steps = tier == "quick" ? 14 : 30;
        o.min_rot_steps = 4;
        Cfg c = swarm_cfg(r, o);
        if (r.chance(0.3)) vary_machine(r, c);
        if (r.chance(0.3)) { wild_cfg(r, c); p.seti("wild", 1); }
        // long histories on a tiny grid (a tenth of the groups): counters, stamps and caches that wrap or refill after 2^k steps;
        // renormalisation and output cadences are placed on and around powers of two
        bool longrun = r.chance(0.1);
        if (longrun) {
            c.grid = r.range(8, 12); c.steps = r.range(40, 120);
            long nsteps = r.pick(std::vector<long>{257, 300, 513, 520, 600, 1025}) + r.range(0, 30);
            c.rotations = (nsteps - 0.5) / (double)c.steps;
            c.renorm = r.pick(std::vector<long>{-1, 0, 64, 128, 256, 256, 512, 100});
            if (c.currents.size() > 1) c.padding = 2;
            p.seti("longrun", 1);
        }
        // a group may start from the results file of an earlier leg (which carries that leg's charge drift)
        if (!longrun && c.currents.size() == 1 && c.rf_mod_ampl == 0 && r.chance(0.25)) p.seti("fromfile", r.range(2, 9));
        Derived d = derive(c);
        c.tracking = ""; c.verbose = false;
        c.to_plan(p);
        plan_file(p, "track.txt", gen_tracking(r, c, r.range(1, 5)));
        long k = r.range(4, 8);
        p.seti("nvar", k);
        long last = d.laststep;
        std::vector<long> outs = {0, 1, 2, 3, 7, last, last + 5, std::max(1L, last / 2)};
        if (longrun) outs = {0, 64, 100, 128, 256, 256, 512, last, last + 5, 37};
        for (long i = 0; i < k; i++) {
            std::string pre = "v" + std::to_string(i) + ".";
            p.seti(pre + "outstep", i == 0 ? 1 : r.pick(outs));
            p.seti(pre + "saveps", i == 0 ? 1 : r.pick(std::vector<long>{0, 1, 2, 5}));
            if (longrun && i == 0) p.seti(pre + "outstep", 128);
            p.seti(pre + "tracking", r.chance(0.5));
            p.seti(pre + "fptrack", r.range(0, 3));
            p.seti(pre + "verbose", r.chance(0.4));
            p.set(pre + "output", r.pick(std::vector<std::string>{"out.h5", "res.hdf5", "sub/dir/o.h5", "a b.h5"}));
            // buggify (legal FFTW behaviour, not an observer in the property's list but an "equal inputs" case): the c2r
            // transform destroys its input in this member's process; results must not depend on it
            p.seti(pre + "scribble", (i > 0 && r.chance(0.25)) ? r.range(1, 2) : 0);
            // the last member of a quarter of the groups is ended by SIGINT at a seeded moment: being stopped is one more way of
            // observing; all its records, the final one included, are records other members hold for the same step
            p.seti(pre + "sigint", (i == k - 1 && i > 0 && r.chance(0.25)) ? r.range(0, 1000000) : -1);
        }
        p.setu("entropy", r.u64());
        // real planner (FFTW_PATIENT + wisdom files) only for short transforms: planning is timed and slow
        p.seti("planner", (r.chance(0.25) && d.wake_nmax <= 512 && d.padded_bins <= 512) ? 1 : 0);
        return p;
    }

    Outcome run(const Plan& plan, RunCtx& rc) const override {
        Outcome o;
        Cfg base = Cfg::from_plan(plan);
        Derived d = derive(base);
        uint64_t entropy = plan.getu("entropy");
        int planner = (int)plan.geti("planner");
        long k = plan.geti("nvar");
        stage_inputs(plan, rc.workdir);
        make_dir(rc.workdir + "/sub/dir");
        std::vector<H5Snap> snaps;
        std::vector<Variant> vars;
        long hooks0 = 0, interrupted_steps = -1;
        auto launch_variant = [&](const Variant& v, const std::string& tag, const std::string& subdir, H5Snap& out) -> bool {
            Cfg c = base;
            c.outstep = v.outstep; c.saveps = v.saveps; c.fptrack = v.fptrack; c.verbose = v.verbose;
            c.tracking = v.tracking ? "track.txt" : "";
            c.output = subdir + v.output;
            Launch l = make_launch(c, rc.workdir, tag, entropy, planner);
            l.rt.c2r_scribble = v.scribble;
            if (v.sigint >= 0 && hooks0 > 0) l.rt.sigint_points = {v.sigint % hooks0};
            LaunchResult r = run_launch(l);
            if (tag == "m0") hooks0 = r.sumi("point_hits");
            if (!r.raised.empty()) { interrupted_steps = r.sumi("steps_done"); o.fault("sigint_point"); o.probe("reach.member_ended_by_sigint"); }
            o.launches++;
            if (r.sumi("scribbles") > 0) o.fault("fftw_c2r_input_destroyed", r.sumi("scribbles"));
            o.simsteps += r.sumi("steps_done");
            if (!r.exited || r.code != 0 || ((unsigned)r.sumi("steps_done") != d.laststep && r.raised.empty())) {
                o.set_infra("launch " + tag + " failed: " + r.describe() + " steps=" + std::to_string(r.sumi("steps_done")) + " " + tail(r.err));
                return false;
            }
            out = h5_read(rc.workdir + "/" + c.output);
            if (!out.ok) { o.set_infra("launch " + tag + ": unreadable results " + out.error + " stdout: " + tail(r.out)); return false; }
            // with the real (timing-based) planner the chosen FFT plan, hence the rounding of the results, may differ
            // between two executions of this plan: only the group-internal comparisons are meaningful then
            o.mixfp(r.evhash()); if (planner == 0) o.mixfp(out.digest());
            return true;
        };
        if (plan.geti("fromfile", 0) > 0) {
            // an earlier leg of a few steps on the same machine; every member of the group continues from its last record
            Cfg c0 = base; c0.output = "pre.h5"; c0.outstep = 1; c0.saveps = 1; c0.renorm = base.renorm;
            c0.rotations = (plan.geti("fromfile") - 0.5) / d.steps;
            Launch l0 = make_launch(c0, rc.workdir, "pre", entropy, planner);
            LaunchResult r0 = run_launch(l0); o.launches++;
            if (!r0.exited || r0.code != 0) { o.set_infra("earlier leg failed: " + r0.describe() + " " + tail(r0.err)); return o; }
            base.startfile = "pre.h5";
            o.probe("reach.group_starts_from_results_file");
        }
        if (planner == 1) {
            // "the same FFT wisdom": a warm-up launch creates the wisdom files every member then loads
            Variant w{0, 0, 0, false, false, "warm.h5"};
            H5Snap s;
            if (!launch_variant(w, "warm", "", s)) return o;
        }
        for (long i = 0; i < k; i++) {
            std::string pre = "v" + std::to_string(i) + ".";
            Variant v{plan.geti(pre + "outstep"), plan.geti(pre + "saveps"), plan.geti(pre + "fptrack"),
                      plan.geti(pre + "tracking") != 0, plan.geti(pre + "verbose") != 0, plan.get(pre + "output", "out.h5"), (int)plan.geti(pre + "scribble", 0), plan.geti(pre + "sigint", -1)};
            H5Snap s;
            make_dir(rc.workdir + "/m" + std::to_string(i) + "/sub/dir");
            if (!launch_variant(v, "m" + std::to_string(i), "m" + std::to_string(i) + "/", s)) return o;
            vars.push_back(v); snaps.push_back(std::move(s));
            std::string oc = v.outstep == 0 ? "never" : v.outstep == 1 ? "every" : (unsigned)v.outstep > d.laststep ? "beyond" : "n";
            o.probe("cls." + oc + ".ps" + std::to_string(v.saveps) + (v.tracking ? ".trk" + std::to_string(v.fptrack) : ".notrk") + (v.verbose ? ".v" : "") +
                    "|" + (d.has_wake ? "wake" : "nowake") + (d.nbunches > 1 ? ".mb" : "") + ".rn" + (base.renorm < 0 ? "off" : base.renorm == 0 ? "init" : "n") + (d.dynamic_rf ? ".dyn" : ""));
        }
        // repeatability: variant 0 launched again in a separate process life
        {
            H5Snap rep;
            make_dir(rc.workdir + "/rep/sub/dir");
            if (!launch_variant(vars[0], "rep", "rep/", rep)) return o;
            o.checks++;
            auto diff = h5_diff(snaps[0], rep, all_but({"/Info/Parameters@output"}));
            if (!diff.empty()) o.fail("C12.repeat", "two launches with identical parameters differ in " + diff[0] + " (+" + std::to_string(diff.size() - 1) + " more)");
        }
        // final phase space identical across the group
        for (long i = 1; i < k; i++) {
            o.checks++;
            if (vars[(size_t)i].sigint >= 0 && interrupted_steps >= 0 && (unsigned)interrupted_steps != d.laststep) continue;   // (stopped earlier: its records are compared step by step below)
            size_t ra = snaps[0].rows(PS_DATA), rb = snaps[i].rows(PS_DATA);
            if (ra == 0 || rb == 0) { o.fail("C12.final_ps", "member without a final phase-space record"); continue; }
            std::string e = cmp_row(snaps[0], ra - 1, snaps[i], rb - 1, PS_DATA);
            if (!e.empty()) o.fail("C12.final_ps", "final phase space of member 0 (outstep=" + std::to_string(vars[0].outstep) + ",saveps=" + std::to_string(vars[0].saveps) +
                                                   ") vs member " + std::to_string(i) + " (outstep=" + std::to_string(vars[i].outstep) + ",saveps=" + std::to_string(vars[i].saveps) +
                                                   ",tracking=" + std::to_string(vars[i].tracking) + (vars[i].scribble ? ",fftw c2r input destroyed" : "") + "): " + e);
        }
        // common records identical
        std::vector<std::string> names = record_datasets();
        names.push_back("/WakePotential/data");
        std::map<uint32_t, std::pair<long, size_t>> canon;     // time bits -> (member,row)
        std::map<uint32_t, std::pair<long, size_t>> canon_ps;
        long common = 0;
        for (long i = 0; i < k; i++) {
            auto t = snaps[i].get(TIME_AXIS);
            for (size_t r0 = 0; t && r0 < t->rows(); r0++) {
                uint32_t key = f2u((float)t->at(r0));
                auto it = canon.find(key);
                if (it == canon.end()) { canon[key] = {i, r0}; continue; }
                common++;
                for (auto& nme : names) {
                    if (nme == "/Particles/data") {
                        long j = it->second.first;
                        if (vars[i].tracking != vars[j].tracking || vars[i].fptrack != vars[j].fptrack) continue;
                    }
                    if (!snaps[i].has(nme) || snaps[i].rows(nme) == 0) continue;
                    o.checks++;
                    std::string e = cmp_row(snaps[it->second.first], it->second.second, snaps[i], r0, nme);
                    if (!e.empty()) { o.fail("C12.common_record", "record at t=" + fmt_g(t->at(r0), 7) + " member " + std::to_string(it->second.first) + " vs " + std::to_string(i) + ": " + e); break; }
                }
            }
            auto tp = snaps[i].get(PS_AXIS);
            // note: with SavePhaseSpace=0 there are two records at the same time only if laststep==0, which the generator excludes
            for (size_t r0 = 0; tp && r0 < tp->rows(); r0++) {
                uint32_t key = f2u((float)tp->at(r0));
                auto it = canon_ps.find(key);
                if (it == canon_ps.end()) { canon_ps[key] = {i, r0}; continue; }
                if (it->second.first == i) continue;
                // the extra t=0 record of SavePhaseSpace=0 is the initial condition written before the loop (before a
                // step-0 renormalisation), not an output-step record: it is not compared with output-step records
                if ((vars[i].saveps == 0 && r0 == 0) || (vars[it->second.first].saveps == 0 && it->second.second == 0)) continue;
                o.checks++;
                std::string e = cmp_row(snaps[it->second.first], it->second.second, snaps[i], r0, PS_DATA);
                if (!e.empty()) o.fail("C12.common_record", "phase space at t=" + fmt_g(tp->at(r0), 7) + " member " + std::to_string(it->second.first) + " vs " + std::to_string(i) + ": " + e);
            }
        }
        o.probe("reach.common_records", common);
        if (planner == 1) o.probe("reach.planner_real");
        if (plan.geti("wild", 0)) o.probe("reach.wild_configuration");
        if (plan.geti("longrun", 0)) o.probe("reach.more_than_256_steps");
        if (base.renorm > 0) o.probe("reach.renormalisation_every_n");
        if (d.has_wake) o.probe("reach.with_wake");
        if (d.nbunches > 1) o.probe("reach.multibunch");
        if (d.dynamic_rf) o.probe("reach.rf_modulation");
        o.simperiods = o.simsteps / d.steps;
        o.nontrivial = common > 0;
        o.sample = base.summary() + " members=" + std::to_string(k) + " common_records=" + std::to_string(common);
        return o;
    }

    std::vector<Plan> shrink_candidates(const Plan& p, const Outcome&) const override {
        std::vector<Plan> out;
        long k = p.geti("nvar");
        // drop a member (keep at least 2): move the last one into slot i
        for (long i = k - 1; i >= 1 && k > 2; i--) {
            Plan q = p;
            std::string last = "v" + std::to_string(k - 1) + ".", cur = "v" + std::to_string(i) + ".";
            for (auto key : {"outstep", "saveps", "tracking", "fptrack", "verbose", "output", "scribble", "sigint"}) {
                q.set(cur + key, p.get(last + key));
                q.erase(last + key);
            }
            q.seti("nvar", k - 1);
            out.push_back(q);
        }
        Cfg c = Cfg::from_plan(p);
        auto with = [&](std::function<void(Cfg&)> f) { Cfg d = c; Plan q = p; f(d); d.to_plan(q); if (!(q == p)) out.push_back(q); };
        with([](Cfg& d) { d.currents = {d.currents[0] > 0 ? d.currents[0] : 1e-3}; });
        with([](Cfg& d) { d.gap = 0; d.wallcond = 0; d.collimator = 0; d.useCSR = true; });
        with([](Cfg& d) { d.rf_mod_ampl = d.rf_mod_freq = 0; });
        with([](Cfg& d) { d.tdamp = 0; });
        with([](Cfg& d) { d.shiftx = d.shifty = 0; });
        with([](Cfg& d) { d.grid = 12; });
        with([](Cfg& d) { d.renorm = -1; });
        with([](Cfg& d) { d.interp = 4; d.deriv = 4; d.clamp = false; d.zoom = 1; d.pssize = 12; d.padding = 2; d.roundpad = true; d.linearRF = true; });
        with([](Cfg& d) { Derived dd = derive(d); if (dd.laststep > 2) d.rotations = (dd.laststep / 2 - 0.5) / dd.steps; });
        for (long i = 0; i < k; i++) {
            std::string pre = "v" + std::to_string(i) + ".";
            if (p.geti(pre + "tracking")) { Plan q = p; q.seti(pre + "tracking", 0); out.push_back(q); }
            if (p.geti(pre + "verbose")) { Plan q = p; q.seti(pre + "verbose", 0); out.push_back(q); }
            if (p.geti(pre + "scribble", 0)) { Plan q = p; q.seti(pre + "scribble", 0); out.push_back(q); }
            if (p.geti(pre + "sigint", -1) >= 0) { Plan q = p; q.seti(pre + "sigint", -1); out.push_back(q); }
            if (p.get(pre + "output") != "out.h5") { Plan q = p; q.set(pre + "output", "out.h5"); out.push_back(q); }
        }
        if (p.geti("planner")) { Plan q = p; q.seti("planner", 0); out.push_back(q); }
        if (p.geti("fromfile", 0)) { Plan q = p; q.erase("fromfile"); out.push_back(q); }
        return out;
    }
};

ScenarioRegistrar reg(new C12());

} // namespace
} // namespace sim
