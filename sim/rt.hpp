// In-process simulator runtime: the seams the code under test sees.
//  - inovesa_verif_point(label): hook points in main() (guarded by INOVESA_VERIF in /repo)
//  - std::random_device (entropy)            via -Wl,--wrap=_ZNSt13random_device9_M_getvalEv
//  - std::chrono::system_clock::now (clock)  via -Wl,--wrap=_ZNSt6chrono3_V212system_clock3nowEv
//  - FFTW planner flags + wisdom files       via -Wl,--wrap=fftwf_plan_dft_{r2c,c2r}_1d, fftwf_{im,ex}port_wisdom_*
//  - pwrite/pread/open as seen by libhdf5    by defining them in the executable (-rdynamic)
#pragma once
#include <cstdint>
#include <string>
#include <vector>
#include <map>

namespace simrt {

struct Config {
    bool active = false;              // seams simulated (false: everything passes through)
    // S1: SIGINT delivery
    std::vector<long> sigint_points;  // global hook-point hit indices (0-based) at which SIGINT is raised
    std::vector<long> sigint_writes;  // indices of interposed write-type I/O calls on the results file
    std::vector<long> sigint_clocks;  // indices of wall-clock reads (they happen inside Display::printText and the log stamps)
    // S5: entropy
    uint64_t entropy_seed = 0;
    // S6: clock: starts at 1 s, +1 ms per read; optional backwards jump (informational probe only)
    long clock_jump_at = -1;          // read index at which the clock jumps
    long clock_jump_ms = 0;
    // S7: FFT planner
    int planner_mode = 0;             // 0 = stub (FFTW_ESTIMATE, no wisdom files), 1 = real planner + wisdom files
    // buggify: FFTW documents that a c2r transform destroys its input array even when out of place. This FFTW build
    // leaves most of it alone; with c2r_scribble != 0 the simulator overwrites the whole input (bins 0..n/2) with
    // garbage after every c2r execution, which is legal library behaviour.
    int c2r_scribble = 0;             // 0 off, 1 large finite garbage, 2 NaN
    // S8: read faults on an input file (path substring match)
    std::string fault_path;           // substring of the path the fault applies to
    int fault_kind = 0;               // 0 none, 1 open fails (errno below), 2 pread fails with EIO, 3 short pread
    long fault_nth = 0;               // which matching call (0-based) is hit; -1 = every
    int fault_errno = 5;
    bool text_log = false;            // keep a textual event log (short runs)
    std::string summary_path;         // where the child writes its summary at exit
};

struct State {
    long point_hits = 0;
    long loop_heads = 0, steps_done = 0;
    bool in_loop = false, after_loop = false, report_decided = false;
    long entropy_reads = 0, clock_reads = 0;
    long planner_calls = 0, wisdom_imports = 0, wisdom_exports = 0, scribbles = 0;
    long io_writes = 0, io_reads = 0, io_opens = 0;
    long faults_fired = 0;
    long signals_raised = 0;
    uint64_t evhash = 1469598103934665603ull;
    std::map<std::string, long> label_hits;
    std::vector<std::string> raised_at;   // "kind:label:hit:loop_heads:steps_done:phase"
    std::string text;                     // textual event log when enabled
};

void install(const Config& c);     // (re)initialise state; registers the at-exit summary writer once
void uninstall();
const State& state();
const Config& config();
void event(const std::string& e);  // append to hash (and text log)
void write_summary();              // called automatically at exit of a launch child

// entropy stream: the values std::random_device will return, as a pure function of the seed
uint32_t entropy_value(uint64_t seed, long index);

} // namespace simrt
