// C15: tracked particles follow the flow of the distribution and never leave the grid.
#include "api.hpp"
#include "common.hpp"

namespace sim {
namespace {

using namespace vfps;

struct C15 : Scenario {
    const char* id() const override { return "C15"; }
    long default_runs(const std::string& tier) const override { return tier == "quick" ? 200 : 20000; }
    const char* rule() const override {
        return "one evaluation = one particle-step check: (flow) centre of a small Gaussian blob after apply() vs the particle after applyTo() for "
               "RF kick, drift and generic smooth energy/position kicks; (bounds) every coordinate after every step of long histories (wake-like "
               "kick, RF, drift, all four Fokker-Planck tracking models x all FP types, decrements up to the stability limit) for particles "
               "started on edges, corners and at random; (ensemble) mean and width of 20000 particles under the stochastic model (entropy "
               "simulated); (prog) /Particles/data of whole-program runs with edge/outside particles; distinct_nontrivial counts distinct "
               "(mode, map/track model, FP type, interpolation, start class, shift class) keys";
    }
    const char* measure() const override { return "distinct (mode, model, FP type, interpolation, start class, shift class) keys"; }
    std::vector<std::string> assumptions() const override {
        return {"flow clause judged only when the particle was not clamped and the blob stays 5 sigma + |displacement| clear of the border",
                "ensemble clause: 4-sigma statistical bounds plus 1% / 3% model error on seeded ensembles",
                "the normal_distribution/mt19937 code is real; only its seed (std::random_device) is simulated"};
    }

    Plan generate(uint64_t seed, long, const std::string& tier) const override {
        Rng r(seed);
        Plan p;
        double u = r.unit();
        std::string mode = u < 0.4 ? "flow" : u < 0.72 ? "bounds" : u < 0.8 ? "ensemble" : u < 0.9 ? "prog" : "progflow";
        p.set("mode", mode);
        p.setu("entropy", r.u64());
        p.setu("pseed", r.u64());
        if (mode == "progflow") {
            // the flow clause through the real main loop: a blob from a start file, one tracked particle on its centre, RF (static or
            // modulated) and drift only; after every step the particle's recorded position has to be the blob's centre of charge
            Cfg c;
            c.grid = r.range(64, 96); c.pssize = 12; c.steps = r.range(20, 60);
            long nsteps = r.range(6, 16);
            c.rotations = (nsteps - 0.5) / (double)c.steps;
            c.outstep = 1; c.saveps = 1; c.renorm = -1; c.gap = 0; c.tdamp = 0; c.interp = r.pick(std::vector<long>{3, 4, 4});
            c.linearRF = r.chance(0.7); c.fptrack = r.range(0, 3); c.padding = 2;
            Derived d0 = derive(c);
            if (r.chance(0.75)) {
                int k = (int)r.range(0, 2);
                if (k <= 1) { c.rf_mod_ampl = std::round(r.uniform(0.5, 4) * 100) / 100; c.rf_mod_freq = std::round(d0.fs * r.uniform(2, 6)); }
                if (k == 2) c.rf_phase_spread = std::round(r.uniform(0.3, 2) * 100) / 100;
            }
            double amp = r.uniform(0, 1.2), ph = r.uniform(0, 2 * M_PI);
            p.setd("q0", amp * std::cos(ph)); p.setd("p0", amp * std::sin(ph));
            c.startfile = "blob.h5"; c.tracking = "track.txt";
            plan_file(p, "track.txt", fmt_g(amp * std::cos(ph), 9) + " " + fmt_g(amp * std::sin(ph), 9) + "\n");
            c.to_plan(p);
            return p;
        }
        if (mode == "prog") {
            SwarmOpts o; o.max_grid = 24; o.max_rot_steps = tier == "quick" ? 12 : 30; o.allow_multibunch = false;
            Cfg c = swarm_cfg(r, o);
            c.tracking = "track.txt";
            c.fptrack = r.range(0, 3);
            Derived d = derive(c);
            // particles in the interior, exactly on the edges, and outside (the reader clamps those)
            std::string t;
            long np = r.range(2, 8);
            for (long i = 0; i < np; i++) {
                double q, pp;
                int k = (int)r.range(0, 4);
                if (k == 0) { q = r.uniform(d.qmin, d.qmax); pp = r.uniform(d.pmin, d.pmax); }
                else if (k == 1) { q = d.qmin; pp = r.chance(0.5) ? d.pmin : d.pmax; }
                else if (k == 2) { q = d.qmax; pp = r.uniform(d.pmin, d.pmax); }
                else if (k == 3) { q = r.uniform(d.qmin, d.qmax); pp = d.pmax; }
                else { q = d.qmax * 3; pp = d.pmin * 3; }
                t += fmt_g(q, 9) + " " + fmt_g(pp, 9) + "\n";
            }
            plan_file(p, "track.txt", t);
            c.to_plan(p);
            p.seti("sigint", r.chance(0.5) ? r.range(0, 1000000) : -1);
            return p;
        }
        p.seti("n", mode == "ensemble" ? r.range(32, 64) : r.range(8, 48));
        p.seti("interp", r.range(2, 4));
        p.setd("shiftx", r.chance(0.5) ? 0 : (double)r.range(-4, 4));
        p.setd("shifty", r.chance(0.5) ? 0 : (double)r.range(-4, 4));
        p.setd("angle", r.uniform(0.03, 0.35));
        p.seti("fptrack", mode == "ensemble" ? 3 : r.range(0, 3));
        p.seti("fptype", mode == "ensemble" ? 3 : r.range(0, 3));
        p.seti("deriv", r.range(3, 4));
        p.set("kind", r.pick(std::vector<std::string>{"rf", "drift", "kicky", "kickx"}));
        // the flow clause also rides the stateful RF maps: sinusoidal RF, and the dynamic (modulated / noisy) RF map, whose
        // displacement field changes with every application (the particles of one case are successive steps of one map object)
        if (mode == "flow" && r.chance(0.45)) p.set("kind", r.pick(std::vector<std::string>{"rfsin", "dynrf_lin", "dynrf_lin", "dynrf_sin", "fp", "fp"}));
        if (mode == "flow") { p.setd("e1", r.loguniform(1e-3, 0.03)); if (p.get("kind") == "fp") p.seti("fptrack", r.range(1, 2)); }
        p.setd("rfamp", r.uniform(5, 40)); p.setd("v0frac", r.uniform(0, 0.3));
        p.setd("modampl", r.chance(0.7) ? r.uniform(0.005, 0.05) : 0); p.setd("phasespread", r.chance(0.5) ? r.uniform(0.002, 0.01) : 0);
        p.setd("amplspread", r.chance(0.4) ? r.uniform(0.005, 0.03) : 0); p.setd("modstep", r.uniform(0.05, 0.9));
        if (mode == "flow") { p.setd("slope", r.uniform(-0.3, 0.3)); p.setd("offset0", r.uniform(-2.5, 2.5)); p.seti("nparticles", 30); }
        if (mode == "bounds") {
            p.seti("nsteps", tier == "quick" ? r.range(50, 1500) : r.range(200, 10000));
            p.setd("e1", r.loguniform(1e-4, 0.06));
            p.setd("kickamp", r.chance(0.3) ? r.uniform(5, 200) : r.uniform(0, 3));
        }
        if (mode == "ensemble") { p.setd("e1", r.loguniform(3e-3, 2e-2)); p.seti("M", 20000); }
        return p;
    }

    static std::shared_ptr<PhaseSpace> mkps(unsigned n, float sx, float sy) {
        std::vector<integral_t> fill{1.0f};
        float qc = -sx * 12.0f / (n - 1), pc = -sy * 12.0f / (n - 1);
        return std::make_shared<PhaseSpace>(qc - 6, qc + 6, 2e-3, pc - 6, pc + 6, 6e5, nullptr, 1.0, 1.0, fill, 1.0);
    }

    // ------------------------------------------------------------------ flow
    void run_flow(const Plan& plan, RunCtx& rc, Outcome& o) const {
        std::string kind = plan.get("kind");
        unsigned n = (unsigned)(40 + plan.geti("n") % 25);   // the blob needs room: 40..64 cells
        if (starts_with(kind, "dynrf")) n += 32;               // (and a wider margin where the field is only known after apply())
        if (kind == "fp") n += 56;                             // (a broad blob needs room)
        auto it = (SourceMap::InterpolationType)plan.geti("interp");
        float sx = (float)plan.getd("shiftx"), sy = (float)plan.getd("shifty");
        api_begin(rc.workdir, plan.getu("entropy"), 0);
        PhaseSpace::resetSize(n, 1);
        auto in = mkps(n, sx, sy), out = mkps(n, sx, sy);
        std::unique_ptr<SourceMap> map;
        double slope = 0;       // |d offset / d row| in cells per cell
        bool ykick = true, dynamic = false, isfp = false;
        if (kind == "rf") { float a = (float)plan.getd("angle"); map.reset(new RFKickMap(in, out, a, 5e8f, it, false, nullptr)); slope = std::tan(a); }
        else if (kind == "drift") { float a = (float)plan.getd("angle"); map.reset(new DriftMap(in, out, {a, 0.0f, 0.0f}, 1.3e9f, it, false, nullptr)); slope = a; ykick = false; }
        else if (kind == "fp") {
            // the damping/diffusion step with the two deterministic particle models: the charge around the particle is moved by the
            // terms FPType selects (damping pulls towards zero energy, diffusion does not move a centre), the particle has to follow that
            map.reset(new FokkerPlanckMap(in, out, n, n, (FokkerPlanckMap::FPType)plan.geti("fptype"), (FokkerPlanckMap::FPTracking)plan.geti("fptrack"), (float)plan.getd("e1"), (FokkerPlanckMap::DerivationType)plan.geti("deriv"), nullptr));
            slope = plan.getd("e1");
            isfp = true;
        }
        else if (kind == "rfsin" || kind == "dynrf_lin" || kind == "dynrf_sin") {
            const long np = plan.geti("nparticles", 30);
            const float frf = 5e8f;
            // sinusoidal model: kick amplitude of rfamp cells, T_rev-part 0.05
            const double revpart = 0.05;
            const double vrf = plan.getd("rfamp") * in->getAxis(1)->delta() * in->getAxis(1)->scale("ElectronVolt") / revpart, v0 = vrf * plan.getd("v0frac");
            float ps = (float)plan.getd("phasespread"), as = (float)plan.getd("amplspread"), ma = (float)plan.getd("modampl");
            if (ps == 0 && as == 0 && ma == 0) ma = 0.02f;
            float a = (float)plan.getd("angle");
            if (kind == "rfsin") map.reset(new RFKickMap(in, out, revpart, (float)vrf, frf, (float)v0, it, false, nullptr));
            else if (kind == "dynrf_lin") map.reset(new DynamicRFKickMap(in, out, n, n, a, revpart, frf, ps, as, ma, plan.getd("modstep"), (uint32_t)np + 2, it, false, nullptr));
            else map.reset(new DynamicRFKickMap(in, out, n, n, revpart, (float)vrf, frf, (float)v0, ps, as, ma, plan.getd("modstep"), (uint32_t)np + 2, it, false, nullptr));
            slope = kind == "dynrf_lin" ? std::tan(a) * 1.05 : plan.getd("rfamp") * in->getAxis(0)->scale("Meter") / 299792458.0 * frf * 6.2832 * in->getAxis(0)->delta() * 1.05;
            dynamic = kind != "rfsin";
        }
        else {
            ykick = kind == "kicky";
            auto* k = new KickMap(in, out, it, false, ykick ? KickMap::Axis::y : KickMap::Axis::x, nullptr);
            std::vector<meshaxis_t> off(n);
            slope = plan.getd("slope");
            for (unsigned i = 0; i < n; i++) off[i] = (float)(plan.getd("offset0") + slope * ((double)i - n / 2.0));
            k->swapOffset(off);
            map.reset(k);
            slope = std::fabs(slope);
        }
        static const float zero_force[4096] = {0};
        const float* force = isfp ? zero_force : dynamic_cast<KickMap*>(map.get())->getForce();
        Rng r(plan.getu("pseed"));
        // (the local-flow particle model of the Fokker-Planck step evaluates the cell the particle sits in: with a broad blob the
        //  diffusion current one cell off the blob's centre is below one decrement)
        const double sigma = isfp ? 6.0 : 1.5;
        long judged = 0;
        double maxflowdev = 0;
        for (long t = 0; t < plan.geti("nparticles", 30); t++) {
            double px = r.uniform(0, n - 1), py = r.uniform(0, n - 1);
            // displacement the particle's row is going to get (for the margin)
            double row = ykick ? px : py;
            double disp = std::fabs(force[(unsigned)std::min<double>(row, n - 1)]);
            // (a dynamic map's field is only known after apply(): the phase part of its kick is bounded separately)
            double margin = 5 * sigma + disp + 2 + slope * 5 * sigma + (dynamic ? 8 : 0);
            bool interior = px > margin && px < n - 1 - margin && py > margin && py < n - 1 - margin;
            if (!interior) { o.probe("reach.flow_skipped_near_border"); continue; }
            float* d = in->getData();
            for (unsigned x = 0; x < n; x++) for (unsigned y = 0; y < n; y++)
                d[x * n + y] = (float)std::exp(-0.5 * (std::pow((x - px) / sigma, 2) + std::pow((y - py) / sigma, 2)));
            map->apply();
            PhaseSpace::Position pos{(float)px, (float)py};
            map->applyTo(pos);
            double sw = 0, mx = 0, my = 0;
            const float* od = out->getData();
            for (unsigned x = 0; x < n; x++) for (unsigned y = 0; y < n; y++) { double v = od[x * n + y]; sw += v; mx += v * x; my += v * y; }
            mx /= sw; my /= sw;
            // all displacement fields used here are linear in the row index, so a symmetric blob moves exactly like its centre;
            // what remains is rounding (measured: < 5e-6 cell for interpolation orders 2-4)
            double tol = 1e-3;    // worst observed on the tree: 4.6e-6 cell
            if (isfp) {
                // the particle models work per cell (floor of the coordinate). Damping: a decrement or two. Diffusion (local-flow model):
                // the current one cell off the centre of the blob, 2 (e1/cell^2) / sigma^2 cells per step
                double cell = (double)in->getDelta(1);
                tol = 2e-3 + 2 * plan.getd("e1") + 2.2 * plan.getd("e1") / (cell * cell) / (sigma * sigma);
            }
            if (kind == "rfsin" || kind == "dynrf_sin") {
                // curved field: the blob's centre lags the particle by ~ f'' sigma^2 / 2, the particle's own linear interpolation by f''/8
                double c2 = 0;
                for (unsigned i = 1; i + 1 < n; i++) c2 = std::max(c2, (double)std::fabs(force[i + 1] - 2 * force[i] + force[i - 1]));
                tol += c2 * (sigma * sigma + 0.5);
            }
            if (dynamic && (std::fabs(px - pos.x) > 7.5 || std::fabs(py - pos.y) > 7.5)) { o.probe("reach.flow_skipped_near_border"); continue; }   // kick larger than the extra margin
            maxflowdev = std::max(maxflowdev, std::max(std::fabs(mx - pos.x), std::fabs(my - pos.y)));
            o.checks++; judged++; o.probe("reach.flow_judged");
            if (std::fabs(mx - pos.x) > tol || std::fabs(my - pos.y) > tol)
                o.fail("C15.flow_" + kind, "particle at (" + fmt_g(px, 6) + "," + fmt_g(py, 6) + ") moved to (" + fmt_g(pos.x, 7) + "," + fmt_g(pos.y, 7) + ") but the charge around it moved to (" + fmt_g(mx, 7) + "," + fmt_g(my, 7) + "); tolerance " + fmt_g(tol, 3) + " cells, grid " + std::to_string(n) + ", shifts " + fmt_g(sx, 3) + "," + fmt_g(sy, 3));
        }
        map.reset();
        api_end();
        o.probe("cls.flow." + kind + ".ip" + std::to_string((int)it) + (sx != sy ? ".uneq" : sx != 0 ? ".eq" : ".centred"));
        o.nontrivial = judged > 0;
        o.mixfp((uint64_t)judged);
        o.sample = "flow " + kind + " n=" + std::to_string(n) + " interp=" + std::to_string((int)it) + " judged=" + std::to_string(judged) + " maxdev=" + fmt_g(maxflowdev, 4);
    }

    // ------------------------------------------------------------------ bounds / ensemble
    struct Pipe {
        std::shared_ptr<PhaseSpace> g1, g2, g3;
        std::unique_ptr<KickMap> wk; std::unique_ptr<RFKickMap> rf; std::unique_ptr<DriftMap> dr; std::unique_ptr<FokkerPlanckMap> fp;
    };
    static Pipe build_pipe(const Plan& plan, unsigned n, double e1, double kickamp) {
        Pipe P;
        float sx = (float)plan.getd("shiftx"), sy = (float)plan.getd("shifty");
        auto it = (SourceMap::InterpolationType)plan.geti("interp");
        PhaseSpace::resetSize(n, 1);
        P.g1 = mkps(n, sx, sy); P.g2 = mkps(n, sx, sy); P.g3 = mkps(n, sx, sy);
        float a = (float)plan.getd("angle");
        P.wk.reset(new KickMap(P.g1, P.g2, it, false, KickMap::Axis::y, nullptr));
        std::vector<meshaxis_t> off(n);
        Rng r(plan.getu("pseed") ^ 0x77);
        for (unsigned i = 0; i < n; i++) off[i] = (float)(kickamp * std::sin(0.37 * i + r.unit()));
        P.wk->swapOffset(off);
        P.rf.reset(new RFKickMap(P.g2, P.g1, a, 5e8f, it, false, nullptr));
        P.dr.reset(new DriftMap(P.g1, P.g3, {a, 0.0f, 0.0f}, 1.3e9f, it, false, nullptr));
        P.fp.reset(new FokkerPlanckMap(P.g3, P.g1, n, n, (FokkerPlanckMap::FPType)plan.geti("fptype"), (FokkerPlanckMap::FPTracking)plan.geti("fptrack"), (float)e1, (FokkerPlanckMap::DerivationType)plan.geti("deriv"), nullptr));
        return P;
    }

    void run_bounds(const Plan& plan, RunCtx& rc, Outcome& o) const {
        unsigned n = (unsigned)plan.geti("n");
        api_begin(rc.workdir, plan.getu("entropy"), 0);
        double e1 = plan.getd("e1");
        Pipe P = build_pipe(plan, n, e1, plan.getd("kickamp"));
        Rng r(plan.getu("pseed"));
        std::vector<PhaseSpace::Position> ps;
        std::vector<std::string> cls;
        float hi = (float)(n - 1), eps = 1e-3f;
        std::vector<std::pair<float, float>> special = {{0, 0}, {hi, hi}, {0, hi}, {hi, 0}, {hi / 2, 0}, {hi / 2, hi}, {0, hi / 2}, {hi, hi / 2},
                                                        {eps, eps}, {hi - eps, hi - eps}, {1, 1}, {hi - 1, hi - 1}, {0.5f, hi - 0.5f}};
        for (auto& s : special) { ps.push_back({s.first, s.second}); cls.push_back("edge"); }
        for (int i = 0; i < 12; i++) { ps.push_back({(float)r.uniform(0, hi), (float)r.uniform(0, hi)}); cls.push_back("random"); }
        long nsteps = plan.geti("nsteps");
        std::vector<PhaseSpace::Position> start = ps;
        for (long k = 0; k < nsteps && o.fails.empty(); k++) {
            // the distribution itself is not evolved here (its values only matter for tracking model 2)
            P.wk->applyToAll(ps); P.rf->applyToAll(ps); P.dr->applyToAll(ps); P.fp->applyToAll(ps);
            for (size_t i = 0; i < ps.size(); i++) {
                o.checks++;
                bool ok = std::isfinite(ps[i].x) && std::isfinite(ps[i].y) && ps[i].x >= 0 && ps[i].x <= hi && ps[i].y >= 0 && ps[i].y <= hi;
                if (!ok) {
                    o.hints["nsteps"] = std::to_string(k + 1);
                    o.fail("C15.inside_grid", "particle started at (" + fmt_g(start[i].x, 7) + "," + fmt_g(start[i].y, 7) + ") is at (" + fmt_g(ps[i].x, 7) + "," + fmt_g(ps[i].y, 7) + ") after step " + std::to_string(k + 1) + " (grid 0.." + fmt_g(hi, 4) + ", FPTrack " + plan.get("fptrack") + ", FPType " + plan.get("fptype") + ", derivation " + plan.get("deriv") + ", e1 " + fmt_g(e1, 4) + ")");
                    break;
                }
            }
        }
        if (simrt::state().entropy_reads > 0) o.fault("entropy_reads", simrt::state().entropy_reads);
        P = Pipe();
        api_end();
        o.probe("cls.bounds.trk" + plan.get("fptrack") + ".fp" + plan.get("fptype") + ".d" + plan.get("deriv") + (plan.getd("kickamp") > 4 ? ".bigkick" : ""));
        if (plan.getd("kickamp") > 4) o.probe("reach.kick_beyond_grid");
        o.nontrivial = true;
        o.mixfp(hash_bytes(ps.data(), ps.size() * sizeof(ps[0])));
        o.sample = "bounds n=" + std::to_string(n) + " steps=" + std::to_string(nsteps) + " FPTrack=" + plan.get("fptrack") + " FPType=" + plan.get("fptype") + " e1=" + fmt_g(e1, 3);
    }

    void run_ensemble(const Plan& plan, RunCtx& rc, Outcome& o) const {
        unsigned n = (unsigned)plan.geti("n");
        api_begin(rc.workdir, plan.getu("entropy"), 0);
        double e1 = plan.getd("e1");
        Pipe P = build_pipe(plan, n, e1, 0.0);
        long M = plan.geti("M", 20000);
        Rng r(plan.getu("pseed"));
        auto gauss = [&]() { double u1 = std::max(r.unit(), 1e-12), u2 = r.unit(); return std::sqrt(-2 * std::log(u1)) * std::cos(2 * M_PI * u2); };
        std::vector<PhaseSpace::Position> ps((size_t)M);
        for (auto& p : ps) { p.x = P.g1->x((float)gauss()); p.y = P.g1->y((float)gauss()); }
        long nsteps = (long)(6.0 * 2.0 / e1);     // six damping times of the amplitude (rate e1/2 per step)
        nsteps = std::min(nsteps, 6000L);
        for (long k = 0; k < nsteps; k++) { P.rf->applyToAll(ps); P.dr->applyToAll(ps); P.fp->applyToAll(ps); }
        double mq = 0, mp = 0, vq = 0, vp = 0;
        float dq = P.g1->getDelta(0), dp = P.g1->getDelta(1);
        float q0 = P.g1->getAxis(0)->min(), p0 = P.g1->getAxis(1)->min();
        for (auto& p : ps) { double q = q0 + p.x * dq, pp = p0 + p.y * dp; mq += q; mp += pp; vq += q * q; vp += pp * pp; }
        mq /= M; mp /= M; vq = std::sqrt(vq / M - mq * mq); vp = std::sqrt(vp / M - mp * mp);
        double tolm = 4.0 / std::sqrt((double)M) + 0.01;
        o.checks += 4;
        std::string ctx = " (grid " + std::to_string(n) + ", shifts " + plan.get("shiftx") + "," + plan.get("shifty") + ", e1 " + fmt_g(e1, 3) + ", " + std::to_string(nsteps) + " steps, " + std::to_string(M) + " particles)";
        if (std::fabs(mq) > tolm || std::fabs(mp) > tolm) o.fail("C15.ensemble_mean", "ensemble mean (q,p) = (" + fmt_g(mq, 5) + "," + fmt_g(mp, 5) + ") instead of 0 +- " + fmt_g(tolm, 3) + ctx);
        // the equilibrium of a kick-drift map with noise added at one point of the step is wider in energy by O(theta^2) (observed:
        // 0.12 theta^2 on grids of ~50 points, 0.043 at theta = 0.32 on a 32-point grid with a shifted energy axis: thorough tier)
        const double th = plan.getd("angle"), cellw = 12.0 / (n - 1);
        const double tolw = 0.03 + e1 + 0.15 * th * th + 0.1 * cellw * cellw;
        if (std::fabs(vq - 1) > tolw || std::fabs(vp - 1) > tolw) o.fail("C15.ensemble_width", "ensemble widths (q,p) = (" + fmt_g(vq, 5) + "," + fmt_g(vp, 5) + ") instead of 1 +- " + fmt_g(tolw, 3) + ctx);
        o.fault("entropy_reads", simrt::state().entropy_reads);
        P = Pipe();
        api_end();
        o.probe(std::string("cls.ensemble") + (plan.getd("shiftx") != plan.getd("shifty") ? ".uneq" : plan.getd("shiftx") != 0 ? ".eq" : ".centred"));
        o.nontrivial = true;
        o.mixfp(hash_bytes(ps.data(), ps.size() * sizeof(ps[0])));
        o.simsteps = nsteps;
        o.sample = "ensemble n=" + std::to_string(n) + " e1=" + fmt_g(e1, 3) + " steps=" + std::to_string(nsteps) + " mean=(" + fmt_g(mq, 3) + "," + fmt_g(mp, 3) + ") width=(" + fmt_g(vq, 4) + "," + fmt_g(vp, 4) + ")";
    }

    void run_prog(const Plan& plan, RunCtx& rc, Outcome& o) const {
        Cfg cfg = Cfg::from_plan(plan);
        Derived d = derive(cfg);
        stage_inputs(plan, rc.workdir);
        Launch l = make_launch(cfg, rc.workdir, "run", plan.getu("entropy"), 0);
        LaunchResult r = run_launch(l);
        o.launches++; o.simsteps = r.sumi("steps_done");
        o.checks++;
        if (!r.exited || r.code != 0) { o.fail("C15.program_run", "run with tracked particles ended with " + r.describe() + " " + tail(r.err)); return; }
        H5Snap s = h5_read(rc.workdir + "/" + cfg.output);
        if (!s.ok) { o.set_infra("unreadable results"); return; }
        auto pd = s.get("/Particles/data");
        if (!pd || pd->dims.size() != 3) { o.set_infra("no particle data"); return; }
        size_t np = (size_t)pd->dims[1];
        for (size_t i = 0; i < pd->count(); i += 2) {
            o.checks++;
            double q = pd->at(i), p = pd->at(i + 1);
            bool ok = std::isfinite(q) && std::isfinite(p) && q >= d.qmin - 1e-4 && q <= d.qmax + 1e-4 && p >= d.pmin - 1e-4 && p <= d.pmax + 1e-4;
            if (!ok) { o.fail("C15.particles_output", "record " + std::to_string(i / 2 / std::max<size_t>(np, 1)) + " particle " + std::to_string((i / 2) % std::max<size_t>(np, 1)) + ": stored coordinates (" + fmt_g(q, 7) + "," + fmt_g(p, 7) + ") outside the grid [" + fmt_g(d.qmin, 5) + "," + fmt_g(d.qmax, 5) + "]x[" + fmt_g(d.pmin, 5) + "," + fmt_g(d.pmax, 5) + "]"); break; }
        }
        // "moved by each step the same way the charge around it is moved" across an interrupt: a run that is ended by SIGINT at a
        // seeded hook point finishes the step in progress for the grid AND for the particles, so its last /Particles row must be the
        // row of a run configured to stop at that step (same entropy stream)
        if (plan.geti("sigint", -1) >= 0 && d.laststep > 0) {
            long H = r.sumi("point_hits");
            Cfg ci = cfg; ci.output = "I.h5";
            Launch li = make_launch(ci, rc.workdir, "I", plan.getu("entropy"), 0);
            li.rt.sigint_points = {H > 0 ? plan.geti("sigint") % H : 0};
            LaunchResult ri = run_launch(li); o.launches++;
            if (!ri.exited || ri.code != 0) { o.fail("C15.program_run", "interrupted run with tracked particles ended with " + ri.describe() + " " + tail(ri.err)); return; }
            unsigned j = (unsigned)ri.sumi("steps_done");
            Cfg cs = cfg; cs.output = "S.h5"; cs.rotations = j == 0 ? 0 : (j - 0.5) / d.steps;
            Launch ls = make_launch(cs, rc.workdir, "S", plan.getu("entropy"), 0);
            LaunchResult rs = run_launch(ls); o.launches++;
            H5Snap si = h5_read(rc.workdir + "/I.h5"), ss = h5_read(rc.workdir + "/S.h5");
            if (!rs.exited || rs.code != 0 || !si.ok || !ss.ok || (unsigned)rs.sumi("steps_done") != j) { o.set_infra("reference run stopping at step " + std::to_string(j) + " failed: " + rs.describe()); return; }
            o.checks++; o.fault("sigint_point"); o.probe("reach.interrupted_run_with_particles");
            size_t ri_rows = si.rows("/Particles/data"), rs_rows = ss.rows("/Particles/data");
            if (ri_rows == 0 || rs_rows == 0) o.fail("C15.particles_after_interrupt", "no particle record in the interrupted run or its reference");
            else {
                std::string e = cmp_row(si, ri_rows - 1, ss, rs_rows - 1, "/Particles/data");
                if (!e.empty()) o.fail("C15.particles_after_interrupt", "run interrupted in step " + std::to_string(j) + " (hook point " + std::to_string(li.rt.sigint_points[0]) + "): its final particle record is not the one of a run that stops after step " + std::to_string(j) + ": " + e);
            }
            o.mixfp(ri.evhash()); o.mixfp(si.digest());
        }
        o.fault("entropy_reads", r.sumi("entropy_reads"));
        o.probe("cls.prog.trk" + std::to_string(cfg.fptrack) + (d.has_wake ? ".wake" : "") + (d.dynamic_rf ? ".dyn" : ""));
        o.nontrivial = true;
        o.mixfp(r.evhash()); o.mixfp(s.digest());
        o.sample = "prog " + cfg.summary() + " particles=" + std::to_string(np);
    }

    void run_progflow(const Plan& plan, RunCtx& rc, Outcome& o) const {
        Cfg cfg = Cfg::from_plan(plan);
        Derived d = derive(cfg);
        unsigned n = (unsigned)cfg.grid;
        stage_inputs(plan, rc.workdir);
        const double q0 = plan.getd("q0"), p0 = plan.getd("p0"), sig = 3.0 * (double)d.delta_q;
        std::vector<float> data((size_t)n * n);
        for (unsigned x = 0; x < n; x++) for (unsigned y = 0; y < n; y++) { double q = d.q(x) - q0, pp = d.p(y) - p0; data[(size_t)x * n + y] = (float)std::exp(-(q * q + pp * pp) / (2 * sig * sig)); }
        if (!h5_write_f32(rc.workdir + "/blob.h5", "/PhaseSpace/data", {1, n, n}, data)) { o.set_infra("cannot write start file"); return; }
        Launch l = make_launch(cfg, rc.workdir, "run", plan.getu("entropy"), 0);
        LaunchResult r = run_launch(l);
        o.launches++; o.simsteps = r.sumi("steps_done");
        if (!r.exited || r.code != 0) { o.fail("C15.program_run", "run with a tracked particle ended with " + r.describe() + " " + tail(r.err)); return; }
        H5Snap s = h5_read(rc.workdir + "/" + cfg.output);
        auto ps = s.get(PS_DATA); auto pd = s.get("/Particles/data");
        if (!s.ok || !ps || !pd || pd->rows() != ps->rows() || pd->rowlen() < 2) { o.set_infra("unexpected results layout"); return; }
        size_t rl = ps->rowlen();
        double worst = 0;
        for (size_t rec = 0; rec < ps->rows(); rec++) {
            double sw = 0, sq = 0, sp = 0;
            for (unsigned x = 0; x < n; x++) for (unsigned y = 0; y < n; y++) { double w = ps->at(rec * rl + (size_t)x * n + y); sw += w; sq += w * d.q(x); sp += w * d.p(y); }
            double cq = sq / sw, cp = sp / sw, pq = pd->at(rec * pd->rowlen()), pp = pd->at(rec * pd->rowlen() + 1);
            // stored particle coordinates are those of the mesh point below the particle: up to one cell short on either axis
            double dq = (cq - pq) / (double)d.delta_q, dp = (cp - pp) / (double)d.delta_p;
            o.checks++;
            worst = std::max(worst, std::max(std::fabs(dq - 0.5), std::fabs(dp - 0.5)));
            if (dq < -0.1 || dq > 1.1 || dp < -0.1 || dp > 1.1) {
                o.fail("C15.particle_follows_charge", "record " + std::to_string(rec) + ": the charge placed on the tracked particle is centred at (" + fmt_g(cq, 7) + "," + fmt_g(cp, 7) + ") but the particle is recorded at (" + fmt_g(pq, 7) + "," + fmt_g(pp, 7) + "), " + fmt_g(dq, 3) + " / " + fmt_g(dp, 3) + " cells apart (the record holds the mesh point below the particle: 0..1 expected) [" + cfg.summary() + "]");
                break;
            }
        }
        o.probe("cls.progflow." + std::string(cfg.linearRF ? "lin" : "sin") + (d.dynamic_rf ? ".dyn" : ".static") + ".trk" + std::to_string(cfg.fptrack));
        o.nontrivial = true;
        o.mixfp(r.evhash()); o.mixfp(s.digest());
        o.sample = "progflow " + cfg.summary() + " worst offset from the cell's middle " + fmt_g(worst, 3);
    }

    Outcome run(const Plan& plan, RunCtx& rc) const override {
        Outcome o;
        std::string mode = plan.get("mode");
        if (mode == "progflow") { run_progflow(plan, rc, o); o.mixfp((uint64_t)o.fails.size()); return o; }
        if (mode == "flow") run_flow(plan, rc, o);
        else if (mode == "bounds") run_bounds(plan, rc, o);
        else if (mode == "ensemble") run_ensemble(plan, rc, o);
        else run_prog(plan, rc, o);
        o.mixfp((uint64_t)o.fails.size());
        return o;
    }

    std::vector<Plan> shrink_candidates(const Plan& p, const Outcome& last) const override {
        std::vector<Plan> out;
        if (last.hints.count("nsteps")) { Plan q = p; q.set("nsteps", last.hints.at("nsteps")); out.push_back(q); }
        for (auto k : {"shiftx", "shifty", "kickamp"}) if (p.has(k) && p.getd(k) != 0) { Plan q = p; q.setd(k, 0); out.push_back(q); }
        if (p.has("n") && p.geti("n") > 12 && p.get("mode") != "ensemble") { Plan q = p; q.seti("n", 12); out.push_back(q); }
        if (p.get("mode") == "prog") {
            Cfg c = Cfg::from_plan(p);
            auto with = [&](std::function<void(Cfg&)> f) { Cfg d = c; Plan q = p; f(d); d.to_plan(q); if (!(q == p)) out.push_back(q); };
            with([](Cfg& d) { d.gap = 0; d.wallcond = 0; d.collimator = 0; d.useCSR = true; });
            with([](Cfg& d) { d.rf_mod_ampl = d.rf_mod_freq = d.rf_phase_spread = d.rf_ampl_spread = 0; });
            with([](Cfg& d) { d.shiftx = d.shifty = 0; });
            with([](Cfg& d) { Derived dd = derive(d); if (dd.laststep > 1) d.rotations = (dd.laststep - 1 - 0.5) / dd.steps; });
        }
        return out;
    }
};

ScenarioRegistrar reg(new C15());

} // namespace
} // namespace sim
