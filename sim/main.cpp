// inosim: the deterministic-simulation engine for the Inovesa properties.
//   inosim worker <prop> <tier> <verif_seed> <first> <count> <stride> <workroot> <replaydir>
//   inosim replay <planfile> [workroot]
//   inosim gen <prop> <tier> <verif_seed> <index>
//   inosim h5info <file>
//   inosim list
#include "scen.hpp"
#include "launch.hpp"
#include "h5snap.hpp"

#include <chrono>
#include <csignal>
#include <cstdio>
#include <cstdlib>
#include <cstring>
#include <malloc.h>
#include <unistd.h>

// non-inline so that it is emitted: lets the parent classify sanitizer reports of the code under test
extern "C" __attribute__((used, visibility("default"))) const char* __asan_default_options() {
    return "exitcode=77:detect_leaks=0:abort_on_error=0:handle_segv=1:allocator_may_return_null=1";
}
extern "C" __attribute__((used, visibility("default"))) const char* __ubsan_default_options() {
    return "halt_on_error=1:exitcode=77:print_stacktrace=1";
}

namespace sim {
static std::vector<Scenario*>* g_scen = nullptr;
std::vector<Scenario*>& all_scenarios() { if (!g_scen) g_scen = new std::vector<Scenario*>(); return *g_scen; }
void register_scenario(Scenario* s) { all_scenarios().push_back(s); }
Scenario* find_scenario(const std::string& id) {
    for (auto* s : all_scenarios()) if (id == s->id()) return s;
    return nullptr;
}
} // namespace sim

using namespace sim;

// ---- a crash of the code under test inside the worker itself (API mode) is an outcome, not an infrastructure failure:
// the handler names the run that was executing and leaves with status 70; the driver confirms it in a fresh process.
static char g_crash_line[256];          // pre-formatted: async-signal-safe to write
static size_t g_crash_len = 0;
static pid_t g_main_pid = 0;
static int g_crash_replay = 0;          // 0 worker, 1 replay of a plan that expects a crash, 2 replay of another plan
static void crash_handler(int sig) {
    if (getpid() != g_main_pid) { signal(sig, SIG_DFL); raise(sig); return; }   // forked launch children die normally
    char buf[320];
    int n = snprintf(buf, sizeof buf, "%.*s,\"sig\":%d}\n", (int)g_crash_len, g_crash_line, sig);
    if (n > 0) { ssize_t w = write(1, buf, (size_t)n); (void)w; }
    if (g_crash_replay) {
        const char* m = g_crash_replay == 1 ? "REPRODUCED clause=crash\n" : "NOT-REPRODUCED (the replay crashed instead)\n";
        ssize_t w = write(1, m, strlen(m)); (void)w;
        _exit(g_crash_replay == 1 ? 1 : 2);
    }
    _exit(70);
}
static void arm_crash_handler(const char* kind, const std::string& prop, long index, const std::string& expect) {
    g_main_pid = getpid();
    int n = snprintf(g_crash_line, sizeof g_crash_line, "{\"t\":\"%s\",\"prop\":\"%s\",\"index\":%ld,\"expect\":\"%s\"", kind, prop.c_str(), index, expect.c_str());
    g_crash_len = n > 0 ? (size_t)n : 0;
    for (int sg : {SIGSEGV, SIGBUS, SIGFPE, SIGILL, SIGABRT}) signal(sg, crash_handler);
}

static double now_s() {
    using namespace std::chrono;
    return duration<double>(steady_clock::now().time_since_epoch()).count();
}

static std::string clauses_of(const Outcome& o) {
    std::vector<std::string> c;
    for (auto& f : o.fails) c.push_back(f.clause);
    std::sort(c.begin(), c.end());
    return join(c, ",");
}

static std::string map_json(const std::map<std::string, long>& m) {
    std::string s = "{";
    bool first = true;
    for (auto& p : m) { if (!first) s += ","; first = false; s += json_str(p.first) + ":" + std::to_string(p.second); }
    return s + "}";
}

static Outcome run_once(Scenario* sc, const Plan& plan, const std::string& workroot, const std::string& tier, const std::string& tag) {
    RunCtx ctx;
    ctx.workdir = workroot + "/" + tag;
    ctx.tier = tier;
    remove_tree(ctx.workdir);
    make_dir(ctx.workdir);
    Outcome o = sc->run(plan, ctx);
    if (!getenv("VERIF_KEEP")) remove_tree(ctx.workdir);
    return o;
}

// greedy shrinking on the plan representation; keeps a candidate only if the same clause still fails
static Plan shrink(Scenario* sc, Plan plan, Outcome last, const std::string& clause, const std::string& workroot,
                   const std::string& tier, int budget, int* used) {
    bool progress = true;
    int runs = 0;
    while (progress && runs < budget) {
        progress = false;
        for (auto& cand : sc->shrink_candidates(plan, last)) {
            if (runs >= budget) break;
            if (cand == plan) continue;
            runs++;
            Outcome o = run_once(sc, cand, workroot, tier, "shrink");
            if (!o.infra && !o.discarded && o.has(clause)) { plan = cand; last = o; progress = true; break; }
        }
    }
    if (used) *used = runs;
    return plan;
}

static void print_run_line(const char* prop, long index, uint64_t seed, const Outcome& o, double wall) {
    std::string status = o.infra ? "infra" : o.discarded ? "discard" : !o.fails.empty() ? "violation" : "ok";
    std::string s = "{\"t\":\"run\",\"prop\":" + json_str(prop) + ",\"index\":" + std::to_string(index) +
                    ",\"seed\":" + json_str(std::to_string(seed)) + ",\"status\":" + json_str(status);
    s += ",\"clauses\":" + json_str(clauses_of(o));
    if (!o.fails.empty()) s += ",\"detail\":" + json_str(o.fails[0].detail.substr(0, 600));
    if (o.discarded) s += ",\"discard_reason\":" + json_str(o.discard_reason);
    if (o.infra) s += ",\"infra_msg\":" + json_str(o.infra_msg.substr(0, 600));
    s += ",\"fp\":" + json_str(std::to_string(o.fingerprint));
    s += ",\"probes\":" + map_json(o.probes) + ",\"faults\":" + map_json(o.faults);
    s += ",\"launches\":" + std::to_string(o.launches) + ",\"steps\":" + std::to_string(o.simsteps);
    s += ",\"periods\":" + fmt_g(o.simperiods, 8) + ",\"checks\":" + std::to_string(o.checks);
    s += ",\"shape\":" + json_str(o.shape) + ",\"nontrivial\":" + (o.nontrivial ? "true" : "false");
    s += ",\"sample\":" + json_str(o.sample.substr(0, 400)) + ",\"wall\":" + fmt_g(wall, 4) + "}";
    printf("%s\n", s.c_str());
    fflush(stdout);
}

static int cmd_worker(int argc, char** argv) {
    if (argc < 10) { fprintf(stderr, "usage: worker prop tier seed first count stride workroot replaydir\n"); return 2; }
    std::string prop = argv[2], tier = argv[3];
    uint64_t vseed = strtoull(argv[4], nullptr, 10);
    long first = atol(argv[5]), count = atol(argv[6]), stride = atol(argv[7]);
    std::string workroot = argv[8], replaydir = argv[9];
    Scenario* sc = find_scenario(prop);
    if (!sc) { fprintf(stderr, "unknown property %s\n", prop.c_str()); return 2; }
    make_dir(workroot);
    make_dir(replaydir);
    double deadline = getenv("VERIF_DEADLINE") ? atof(getenv("VERIF_DEADLINE")) : 0;
    int rc = 0;
    int reported = 0;
    for (long k = 0; k < count; k++) {
        if (deadline > 0 && (double)time(nullptr) > deadline) { printf("{\"t\":\"stopped\",\"at\":%ld}\n", k); break; }
        long index = first + k * stride;
        uint64_t seed = run_seed(vseed, prop, (uint64_t)index);
        Plan plan = sc->generate(seed, index, tier);
        plan.set("prop", prop);
        plan.setu("seed", seed);
        plan.seti("index", index);
        plan.set("tier", tier);
        double t0 = now_s();
        fflush(stdout);
        arm_crash_handler("crash", prop, index, "");
        Outcome o = run_once(sc, plan, workroot, tier, "r" + std::to_string(index));
        double wall = now_s() - t0;
        print_run_line(prop.c_str(), index, seed, o, wall);
        if (o.infra) { rc = 2; continue; }
        if (!o.fails.empty() && reported < 8) {
            // gate 1: the same plan must fail the same way with the same fingerprint
            Outcome o2 = run_once(sc, plan, workroot, tier, "r" + std::to_string(index) + "b");
            if (clauses_of(o2) != clauses_of(o) || o2.fingerprint != o.fingerprint) {
                printf("{\"t\":\"nondeterministic\",\"prop\":%s,\"index\":%ld,\"first\":%s,\"second\":%s,\"fp1\":\"%llu\",\"fp2\":\"%llu\"}\n",
                       json_str(prop).c_str(), index, json_str(clauses_of(o)).c_str(), json_str(clauses_of(o2)).c_str(),
                       (unsigned long long)o.fingerprint, (unsigned long long)o2.fingerprint);
                fflush(stdout);
                rc = 2;
                continue;
            }
            for (auto& f : o.fails) {
                int used = 0;
                int budget = getenv("VERIF_SHRINK_BUDGET") ? atoi(getenv("VERIF_SHRINK_BUDGET")) : 200;
                Plan small = shrink(sc, plan, o, f.clause, workroot, tier, budget, &used);
                small.set("expect_clause", f.clause);
                std::string safe = f.clause;
                for (auto& ch : safe) if (!isalnum((unsigned char)ch)) ch = '_';
                std::string path = replaydir + "/" + prop + "-" + std::to_string(seed) + "-" + safe + ".plan";
                write_file(path, small.text());
                Outcome os = run_once(sc, small, workroot, tier, "final");
                std::string detail = f.detail;
                for (auto& g : os.fails) if (g.clause == f.clause) detail = g.detail;
                printf("{\"t\":\"violation\",\"prop\":%s,\"index\":%ld,\"seed\":\"%llu\",\"clause\":%s,\"detail\":%s,\"replay\":%s,\"shrink_runs\":%d,\"plan_keys\":%zu}\n",
                       json_str(prop).c_str(), index, (unsigned long long)seed, json_str(f.clause).c_str(),
                       json_str(detail.substr(0, 1200)).c_str(), json_str(path).c_str(), used, small.kv.size());
                fflush(stdout);
                reported++;
            }
            if (rc == 0) rc = 1;
        } else if (!o.fails.empty()) {
            if (rc == 0) rc = 1;
        }
    }
    auto& st = launch_stats();
    printf("{\"t\":\"worker_done\",\"launches\":%ld,\"signals\":%ld,\"faults\":%ld,\"steps\":%ld}\n", st.launches, st.signals, st.faults, st.steps);
    fflush(stdout);
    return rc;
}

static int cmd_replay(int argc, char** argv) {
    if (argc < 3) return 2;
    bool ok = false;
    std::string text = read_file(argv[2], &ok);
    if (!ok) { fprintf(stderr, "cannot read %s\n", argv[2]); return 2; }
    Plan plan = Plan::parse(text);
    std::string prop = plan.get("prop");
    Scenario* sc = find_scenario(prop);
    if (!sc) { fprintf(stderr, "unknown property '%s' in plan\n", prop.c_str()); return 2; }
    std::string workroot = argc > 3 ? argv[3] : ("/verif/work/replay-" + std::to_string(getpid()));
    make_dir(workroot);
    fflush(stdout);
    arm_crash_handler("replay_crash", prop, plan.geti("index"), plan.get("expect_clause"));
    g_crash_replay = ends_with(plan.get("expect_clause"), ".crash") ? 1 : 2;
    Outcome o = run_once(sc, plan, workroot, plan.get("tier", "quick"), "replay");
    print_run_line(prop.c_str(), plan.geti("index"), plan.getu("seed"), o, 0);
    for (auto& f : o.fails) printf("FAIL clause=%s :: %s\n", f.clause.c_str(), f.detail.c_str());
    if (!getenv("VERIF_KEEP")) remove_tree(workroot);
    if (o.infra) { printf("INFRA %s\n", o.infra_msg.c_str()); return 2; }
    std::string expect = plan.get("expect_clause");
    if (!expect.empty()) {
        if (o.has(expect)) { printf("REPRODUCED clause=%s\n", expect.c_str()); return 1; }
        printf("NOT-REPRODUCED clause=%s\n", expect.c_str());
        return o.fails.empty() ? 0 : 1;
    }
    return o.fails.empty() ? 0 : 1;
}

static int cmd_gen(int argc, char** argv) {
    if (argc < 6) return 2;
    Scenario* sc = find_scenario(argv[2]);
    if (!sc) return 2;
    long index = atol(argv[5]);
    uint64_t seed = run_seed(strtoull(argv[4], nullptr, 10), argv[2], (uint64_t)index);
    Plan p = sc->generate(seed, index, argv[3]);
    p.set("prop", argv[2]); p.setu("seed", seed); p.seti("index", index); p.set("tier", argv[3]);
    printf("%s", p.text().c_str());
    return 0;
}

static int cmd_h5info(int argc, char** argv) {
    if (argc < 3) return 2;
    H5Snap s = h5_read(argv[2]);
    if (!s.ok) { printf("error: %s\n", s.error.c_str()); return 1; }
    for (auto& d : s.ds) {
        printf("%s [", d.first.c_str());
        for (size_t i = 0; i < d.second.dims.size(); i++) printf("%s%llu", i ? "," : "", d.second.dims[i]);
        printf("] %c%zu", d.second.cls, d.second.esize);
        size_t n = d.second.count();
        if (argc > 3 && d.first == argv[3]) { printf("\n"); for (size_t i = 0; i < n; i++) printf("%.9g\n", d.second.at(i)); }
        else { printf(" :"); for (size_t i = 0; i < n && i < 6; i++) printf(" %.7g", d.second.at(i)); printf("\n"); }
    }
    for (auto& a : s.attrs) printf("%s = %.17g\n", a.first.c_str(), a.second.count() ? a.second.at(0) : 0.0);
    return 0;
}

int main(int argc, char** argv) {
    // Uninitialised heap memory is a source of nondeterminism the simulator has to own: with glibc's thread cache
    // off and malloc perturbation on, every fresh allocation is filled with 0xA5 and every freed one with 0x5A, so a
    // read of uninitialised (or freed) memory gives the same value in the worker, in its re-run and in a fresh replay
    // process, whatever was allocated before. The tunables are read at process start: re-exec once if they are missing.
    {
        const char* t = getenv("GLIBC_TUNABLES");
        if (!getenv("VERIF_NO_PERTURB") && (!t || !strstr(t, "glibc.malloc.tcache_count=0"))) {
            setenv("GLIBC_TUNABLES", "glibc.malloc.tcache_count=0:glibc.malloc.perturb=90", 1);
            execv("/proc/self/exe", argv);
        }
    }
    if (argc < 2) { fprintf(stderr, "usage: inosim worker|replay|gen|h5info|list ...\n"); return 2; }
    std::string cmd = argv[1];
    if (cmd == "worker") return cmd_worker(argc, argv);
    if (cmd == "replay") return cmd_replay(argc, argv);
    if (cmd == "gen") return cmd_gen(argc, argv);
    if (cmd == "h5info") return cmd_h5info(argc, argv);
    if (cmd == "meta" && argc > 2) {
        Scenario* sc = find_scenario(argv[2]);
        if (!sc) return 2;
        std::string a = "[";
        auto as = sc->assumptions();
        for (size_t i = 0; i < as.size(); i++) a += (i ? "," : "") + json_str(as[i]);
        a += "]";
        printf("{\"rule\":%s,\"measure\":%s,\"level\":%s,\"assumptions\":%s}\n", json_str(sc->rule()).c_str(),
               json_str(sc->measure()).c_str(), json_str(sc->level()).c_str(), a.c_str());
        return 0;
    }
    if (cmd == "list") { for (auto* s : all_scenarios()) printf("%s\n", s->id()); return 0; }
    fprintf(stderr, "unknown command %s\n", cmd.c_str());
    return 2;
}
