// Durable-state reader: decodes every dataset and attribute of an HDF5 results file
// (we never compare file bytes: HDF5 stores modification times), plus a writer for
// simulator-authored start files.
#pragma once
#include <cstdint>
#include <map>
#include <set>
#include <string>
#include <vector>
#include <functional>

namespace sim {

struct H5Obj {
    std::vector<unsigned long long> dims;
    char cls = '?';          // 'f' float, 'i' signed int, 'u' unsigned int, 's' string/other
    size_t esize = 0;        // bytes per element in memory
    std::vector<unsigned char> bytes;
    size_t count() const { size_t c = 1; for (auto d : dims) c *= (size_t)d; return c; }
    double at(size_t i) const;           // numeric value of element i
    size_t rows() const { return dims.empty() ? 1 : (size_t)dims[0]; }
    size_t rowlen() const { size_t r = rows(); return r ? count() / r : 0; }
    bool same(const H5Obj& o) const { return dims == o.dims && cls == o.cls && esize == o.esize && bytes == o.bytes; }
    // record r as raw bytes
    std::vector<unsigned char> row(size_t r) const;
};

struct H5Snap {
    bool ok = false;
    std::string error;
    std::map<std::string, H5Obj> ds;     // "/Group/data"
    std::map<std::string, H5Obj> attrs;  // "/Group/data@Attr"
    std::map<std::string, std::string> links; // soft links: path -> target
    std::set<std::string> groups;

    const H5Obj* get(const std::string& p) const { auto i = ds.find(p); return i == ds.end() ? nullptr : &i->second; }
    const H5Obj* attr(const std::string& p) const { auto i = attrs.find(p); return i == attrs.end() ? nullptr : &i->second; }
    bool has(const std::string& p) const { return ds.count(p) != 0; }
    std::vector<double> values(const std::string& p) const;     // dataset as doubles (empty if missing)
    std::vector<float> f32(const std::string& p) const;         // dataset as float (must be 4-byte float)
    double attrd(const std::string& p, double dflt = 0) const;
    size_t rows(const std::string& p) const { auto o = get(p); return o ? o->rows() : 0; }
    // digest over datasets and attributes for which keep(path) is true
    uint64_t digest(const std::function<bool(const std::string&)>& keep = nullptr) const;
};

H5Snap h5_read(const std::string& file);

// Write a file containing one float dataset at `path` (intermediate groups are created).
bool h5_write_as(const std::string& file, const std::string& path,
                 const std::vector<unsigned long long>& dims, const std::vector<float>& data, char stored);
bool h5_write_f32(const std::string& file, const std::string& path,
                  const std::vector<unsigned long long>& dims, const std::vector<float>& data);

// compare two snapshots on the objects selected by keep; returns list of differing paths
std::vector<std::string> h5_diff(const H5Snap& a, const H5Snap& b,
                                 const std::function<bool(const std::string&)>& keep);

} // namespace sim
