// C05: the stationary bunch satisfies the Haissinski equation with its own wake.
// Stationary-state oracle over the recorded history of real runs with a weak, stable impedance.
#include "common.hpp"

namespace sim {
namespace {

struct C05 : Scenario {
    const char* id() const override { return "C05"; }
    long default_runs(const std::string& tier) const override { return tier == "quick" ? 16 : 300; }
    const char* rule() const override {
        return "one evaluation = one grid point of the core of the last record of one run: impedance in {parallel plates, free-space CSR, resistive "
               "wall, constant resistance (collimator)}, seeded current (potential-well distortion from mild to order one), grid 64-128, 50-600 "
               "steps per period, grid shifts, short damping time, 50-70 periods; H(q) = ln rho + q^2/2 - (dp/dtheta) * integral W dq must be "
               "constant over the core and the energy spread must be 1; runs that are not stationary at the end (or lost charge) are discarded "
               "and counted; distinct_nontrivial counts distinct (impedance, distortion bucket, steps bucket, shift class, grid bucket, interpolation) keys";
    }
    const char* measure() const override { return "distinct (impedance, distortion bucket, steps bucket, shift class, grid bucket, interpolation) keys"; }
    std::vector<std::string> assumptions() const override {
        return {"stationarity: bunch length and position change by < 2e-4 over the last 5 periods; otherwise the run is discarded (counted, not judged)",
                "core: cells with rho > 0.1 rho_max; differential clause (vs the zero-current twin run): 0.002 + 6% of the wake-induced distortion; absolute clause: 0.008 + 1.4 cell^2 + 8% of spread(ln rho + q^2/2)",
                "the wake is recorded and applied identically, so a defect inside the wake computation itself is C06/C10's business; this oracle ties the "
                "recorded kick to RF focusing, drift and damping/diffusion"};
    }

    Plan generate(uint64_t seed, long, const std::string& tier) const override {
        Rng r(seed);
        Plan p;
        Cfg c;
        c.grid = tier == "quick" ? r.range(64, 88) : r.range(64, 136);
        c.pssize = 12;
        // steps per period: the program's default is 1000; 20 % of the runs use 800-2000 (per-step kicks of 1e-3 cell and less),
        // with a shorter damping time and run so that they stay affordable
        bool many = r.chance(0.2);
        c.steps = many ? r.range(800, 2000) : r.chance(0.3) ? r.range(300, 600) : r.range(50, 250);
        if (many) c.grid = r.range(64, 72);
        c.interp = 4;    // (quadratic interpolation adds its own distortion of the equilibrium on these grids; the default cubic scheme is used
                         //  for the absolute clause; a sixth of the runs use the quadratic scheme, with InterpolateClamped on or off, and are
                         //  judged by the differential clause only, in which the zero-current twin cancels that distortion)
        if (r.chance(0.16)) { c.interp = 3; c.clamp = r.chance(0.5); }
        else if (r.chance(0.15)) c.clamp = true;
        c.deriv = r.pick(std::vector<long>{3, 4});
        c.linearRF = true;
        c.renorm = r.pick(std::vector<long>{0, 0, 20});
        c.padding = r.pick(std::vector<double>{2, 4, 8});
        c.roundpad = r.chance(0.7);
        if (r.chance(0.5)) { c.shiftx = r.chance(0.5) ? (double)r.range(-3, 3) : std::round(r.uniform(-3, 3) * 4) / 4; c.shifty = r.chance(0.5) ? (double)r.range(-3, 3) : 0; }
        // larger shifts of the energy axis (up to an eighth of the grid; the bunch stays 4 sigma clear of the nearer border)
        if (r.chance(0.2)) { c.shifty = (double)r.range(4, c.grid / 8) * (r.chance(0.5) ? 1 : -1); if (r.chance(0.5)) c.shiftx = c.shifty; }
        int kind = (int)r.range(0, 3);
        p.seti("kind", kind);
        if (kind == 0) { c.gap = 0.03; c.currents = {r.loguniform(0.2e-3, 1.5e-3)}; }
        else if (kind == 1) { c.gap = -1; c.currents = {r.loguniform(0.05e-3, 0.4e-3)}; }
        else if (kind == 2) { c.gap = 0.03; c.useCSR = false; c.wallcond = 5e7; c.currents = {r.loguniform(1e-3, 1e-2)}; }
        else { c.gap = 0.03; c.useCSR = false; c.collimator = 0.005; c.currents = {r.loguniform(0.5e-3, 5e-3)}; }
        if (r.chance(0.15)) c.fs = std::round(r.uniform(3e4, 6e4));
        if (r.chance(0.1)) c.steps_per_rev = (double)c.steps * derive(c).fs / derive(c).f_rev;
        Derived d0 = derive(c);
        double Td = many ? r.uniform(3, 4) : r.uniform(7, 11);                 // damping time in synchrotron periods
        c.rotations = many ? std::round(r.uniform(24, 30)) : std::round(r.uniform(50, 70));
        {   // the explicit Fokker-Planck scheme is stable for e1 = 2/(Td steps) < cell^2/2 only (fine grids with few steps per period
            // need a longer damping time, and a proportionally longer run); found by the thorough tier: grid 135 at 50 steps per period
            double delta = c.pssize / (c.grid - 1), Tdmin = 2.0 / (0.4 * delta * delta * d0.steps);
            if (Td < Tdmin) { double f = 1.05 * Tdmin / Td; Td *= f; c.rotations = std::round(c.rotations * f); }
        }
        c.tdamp = Td / d0.fs;
        c.outstep = c.steps; c.saveps = 0;
        c.zoom = r.chance(0.5) ? 1 : std::round(r.uniform(0.8, 1.2) * 100) / 100;
        // "after relaxation from any start": a fifth of the runs start far from equilibrium, so small that the start has
        // exactly-zero columns inside the region the stationary bunch occupies (float underflow beyond ~14 start sigmas)
        if (r.chance(0.2)) { c.zoom = std::round(r.uniform(0.15, 0.3) * 100) / 100; c.rotations += std::round(4 * Td); }   // (further to go: four more damping times)
        else if (r.chance(0.12)) { c.zoom = std::round(r.uniform(1.6, 2.2) * 100) / 100; c.rotations += std::round(4 * Td); }  // broad starts (inside the 12-sigma grid to 2.7 sigma of the edge)
        // coarse stepping on a fine grid with a strong (still stable) wake: the per-step wake kick at equilibrium exceeds one energy cell
        if (!many && r.chance(tier == "quick" ? 0.0 : 0.08)) {   // (minute-long runs: thorough tier only)
            if (r.chance(0.8)) { kind = 2; p.seti("kind", 2); c.useCSR = false; c.collimator = 0; }
            double uz = r.unit(); c.zoom = uz < 0.25 ? 1 : uz < 0.85 ? std::round(r.uniform(1.6, 2.2) * 100) / 100 : std::round(r.uniform(0.15, 0.3) * 100) / 100;
            c.grid = r.range(224, 256); c.steps = r.range(50, 58);
            if (kind == 2) { c.gap = 0.01; c.wallcond = std::round(r.uniform(1.4e6, 4e6)); c.currents = {r.uniform(6e-3, 1e-2)}; }   // a narrow, poorly conducting chamber: order-one distortion
            else if (kind == 0) c.currents = {r.uniform(1e-3, 1.5e-3)}; else if (kind == 3) c.currents = {r.uniform(3e-3, 5e-3)};
            // (the explicit Fokker-Planck scheme needs e1 = 2/(Td steps) below cell^2/2: a longer damping time, and a longer run)
            double delta = c.pssize / (c.grid - 1), Tdmin = 2.0 / (0.4 * delta * delta * c.steps);
            bool far = c.zoom <= 0.3 || c.zoom >= 1.5;
            if (Td < Tdmin) { Td = 1.05 * Tdmin; c.rotations = std::round(9 * Td) + (far ? std::round(4 * Td) : 0); }
            Derived d1 = derive(c); c.tdamp = Td / d1.fs;
            p.seti("coarsefine", 1);
        }
        c.to_plan(p);
        p.setu("entropy", r.u64());
        return p;
    }

    Outcome run(const Plan& plan, RunCtx& rc) const override {
        Outcome o;
        Cfg cfg = Cfg::from_plan(plan);
        Derived d = derive(cfg);
        Launch l = make_launch(cfg, rc.workdir, "run", plan.getu("entropy"), 0);
        l.timeout_s = 900;
        LaunchResult r = run_launch(l);
        o.launches = 1; o.simsteps = r.sumi("steps_done"); o.simperiods = o.simsteps / d.steps;
        if (!r.exited || r.code != 0) { o.set_infra("launch failed: " + r.describe() + " " + tail(r.err)); return o; }
        H5Snap s = h5_read(rc.workdir + "/" + cfg.output);
        if (!s.ok) { o.set_infra("unreadable results"); return o; }
        o.mixfp(r.evhash()); o.mixfp(s.digest());
        unsigned n = (unsigned)cfg.grid;
        // twin: the same machine, grid and Fokker-Planck term without any impedance -> the numerical zero-current equilibrium
        Cfg c0 = cfg; c0.gap = 0; c0.wallcond = 0; c0.collimator = 0; c0.useCSR = true; c0.output = "twin.h5";
        Launch l0 = make_launch(c0, rc.workdir, "twin", plan.getu("entropy"), 0);
        l0.timeout_s = 900;
        LaunchResult r0 = run_launch(l0);
        o.launches++;
        H5Snap s0 = h5_read(rc.workdir + "/twin.h5");
        if (!r0.exited || r0.code != 0 || !s0.ok) { o.set_infra("twin launch failed: " + r0.describe()); return o; }
        auto prof0 = s0.f32("/BunchProfile/data");
        auto prof = s.f32("/BunchProfile/data"), wake = s.f32("/WakePotential/data"), q = s.f32("/Info/AxisValues_z");
        auto len = s.values("/BunchLength/data"), pos = s.values("/BunchPosition/data"), esp = s.values("/EnergySpread/data"), pop = s.values("/BunchPopulation/data");
        size_t nrec = len.size();
        if (nrec < 12 || prof.size() != nrec * n || wake.size() != nrec * n || q.size() != n) { o.set_infra("unexpected shapes"); return o; }
        static const char* names[] = {"pp", "free", "rw", "coll"};
        std::string kind = names[plan.geti("kind") & 3];
        // stationarity (a proviso of the property, not a verdict)
        double dl = 0, dp = 0;
        for (size_t k = nrec - 6; k < nrec; k++) { dl = std::max(dl, std::fabs(len[k] - len[nrec - 1])); dp = std::max(dp, std::fabs(pos[k] - pos[nrec - 1])); }
        if (!(dl < 2e-4 && dp < 2e-4)) {
            // "after relaxation from any start": when the same machine started at the natural size IS stationary by a wide margin after
            // the same time, while the run from the far start (which was given four more damping times) still moves five times more
            // than the proviso allows, the far start failed to relax: that is judged, not discarded
            bool far = cfg.zoom <= 0.3 || cfg.zoom >= 1.5;
            if (far && (dl > 1e-3 || dp > 1e-3)) {
                Cfg cn = cfg; cn.zoom = 1; cn.output = "near.h5";
                Launch ln = make_launch(cn, rc.workdir, "near", plan.getu("entropy"), 0); ln.timeout_s = 900;
                LaunchResult rn = run_launch(ln); o.launches++;
                H5Snap sn = h5_read(rc.workdir + "/near.h5");
                if (rn.exited && rn.code == 0 && sn.ok) {
                    auto ln2 = sn.values("/BunchLength/data"), pn2 = sn.values("/BunchPosition/data");
                    double dln = 0, dpn = 0;
                    if (ln2.size() == nrec) for (size_t k = nrec - 6; k < nrec; k++) { dln = std::max(dln, std::fabs(ln2[k] - ln2[nrec - 1])); dpn = std::max(dpn, std::fabs(pn2[k] - pn2[nrec - 1])); }
                    o.checks++; o.probe("reach.far_start_compared_with_natural_start");
                    if (ln2.size() == nrec && dln < 5e-5 && dpn < 5e-5)
                        o.fail("C05.relaxes_from_any_start", "started at " + fmt_g(cfg.zoom, 3) + " natural sizes the bunch is not stationary after " + fmt_g(cfg.rotations, 4) + " periods (length still moves by " + fmt_g(dl, 3) + ", position by " + fmt_g(dp, 3) +
                               " over the last 5 periods) while the same machine started at the natural size is (" + fmt_g(dln, 3) + ", " + fmt_g(dpn, 3) + ") [" + kind + ", grid " + std::to_string(cfg.grid) + ", " + fmt_g(d.steps, 4) + " steps/period]");
                }
                if (!o.fails.empty()) return o;
            }
            o.discard("not stationary at the end (" + kind + ")"); o.probe("reach.discarded_not_stationary"); return o;
        }
        if (!(std::fabs(pop[nrec - 1] - 1) < 0.05)) {
            // a proviso only when the distribution really reached the grid border at some time; charge that disappears inside the
            // grid is not excused: such a run is judged like any other
            auto eprof = s.f32("/EnergyProfile/data");
            double edge = 0;
            for (size_t k = 0; k < nrec; k++) {
                double m = 0, e = 0;
                for (unsigned i = 0; i < n; i++) m = std::max(m, (double)prof[k * n + i]);
                for (unsigned i : {0u, 1u, n - 2, n - 1}) { e = std::max(e, (double)prof[k * n + i]); if (eprof.size() == nrec * n) e = std::max(e, (double)eprof[k * n + i]); }
                if (m > 0) edge = std::max(edge, e / m);
            }
            if (edge > 1e-5) { o.discard("charge not conserved (distribution reached the border)"); return o; }
            o.probe("reach.charge_lost_inside_grid");
        }
        const float* P = &prof[(nrec - 1) * n];
        const float* W = &wake[(nrec - 1) * n];
        double pmax = 0; for (unsigned i = 0; i < n; i++) pmax = std::max(pmax, (double)P[i]);
        const double dtheta = 2 * M_PI / d.steps, dq = d.delta_q, dpp = d.delta_p;
        // cumulative integral of W dq (trapezoid), in natural energy units per step: W[cells] * delta_p
        std::vector<double> cum(n, 0.0);
        for (unsigned i = 1; i < n; i++) cum[i] = cum[i - 1] + 0.5 * ((double)W[i] + (double)W[i - 1]) * dpp * dq;
        // The discretised Fokker-Planck operator equilibrates at an energy spread slightly different from 1 (checked separately
        // below); the stationary density is exp(-potential/T) with that temperature T = sigma_E^2, so T multiplies ln rho.
        const double T = esp[nrec - 1] * esp[nrec - 1];
        double hmin = 1e300, hmax = -1e300, gmin = 1e300, gmax = -1e300; long ncore = 0;
        unsigned imin = 0, imax = 0;
        for (unsigned i = 0; i < n; i++) {
            if (!(P[i] > 0.1 * pmax)) continue;
            double g = T * std::log((double)P[i]) + 0.5 * (double)q[i] * (double)q[i];
            double h = g - cum[i] / dtheta;
            if (h < hmin) { hmin = h; imin = i; } if (h > hmax) { hmax = h; imax = i; }
            gmin = std::min(gmin, g); gmax = std::max(gmax, g);
            ncore++;
        }
        // differential form: relative to the zero-current equilibrium rho0 of the same discretisation,
        // T ln(rho/rho0) - (1/dtheta) int W dq = const; discretisation and splitting distortions of the RF+FP equilibrium cancel
        double dmin = 1e300, dmax = -1e300, wmin = 1e300, wmax = -1e300;
        bool have0 = prof0.size() == prof.size();
        if (have0) {
            const float* P0 = &prof0[(nrec - 1) * n];
            for (unsigned i = 0; i < n; i++) {
                if (!(P[i] > 0.1 * pmax) || !(P0[i] > 0)) continue;
                double w = T * (std::log((double)P[i]) - std::log((double)P0[i]));
                double dd = w - cum[i] / dtheta;
                dmin = std::min(dmin, dd); dmax = std::max(dmax, dd); wmin = std::min(wmin, w); wmax = std::max(wmax, w);
            }
        }
        double spreadD = dmax - dmin, spreadW = wmax - wmin;
        o.checks = ncore + 1;
        // diagnostic: the scale factor lambda on the wake term that would flatten H best (1 = as the property states)
        double lam_best = 1, best = 1e300;
        for (double lam = 0.3; lam <= 1.7; lam += 0.01) {
            double lo = 1e300, hi = -1e300;
            for (unsigned i = 0; i < n; i++) { if (!(P[i] > 0.1 * pmax)) continue; double h = T * std::log((double)P[i]) + 0.5 * (double)q[i] * (double)q[i] - lam * cum[i] / dtheta; lo = std::min(lo, h); hi = std::max(hi, h); }
            if (hi - lo < best) { best = hi - lo; lam_best = lam; }
        }
        o.hints["lambda"] = fmt_g(lam_best, 3) + "(" + fmt_g(best, 3) + ")";
        double spreadH = hmax - hmin, spreadG = gmax - gmin;
        std::string ctx = " [" + kind + ", I=" + fmt_g(cfg.currents[0], 3) + " A, grid " + std::to_string(n) + ", " + std::to_string(cfg.steps) + " steps/period, shifts " + fmt_g(cfg.shiftx, 3) + "," + fmt_g(cfg.shifty, 3) +
                          ", interpolation " + std::to_string(cfg.interp) + ", derivation " + std::to_string(cfg.deriv) + ", padding " + fmt_g(cfg.padding, 3) + (cfg.roundpad ? "r" : "") + ", renorm " + std::to_string(cfg.renorm) + "]";
        // (1) differential form (sharp): judged against the wake-induced distortion itself
        // (quadratic interpolation: the twin cancels most, not all, of the scheme's own distortion - observed up to 7.4 % of the
        //  wake-induced distortion with VERIF_SEED 4 and 7; twice the cubic tolerance)
        double tolD = cfg.interp == 4 ? 0.002 + 0.06 * spreadW : 0.004 + 0.12 * spreadW;
        if (have0 && !(spreadD <= tolD)) o.fail("C05.haissinski", "sigma_E^2 ln(rho/rho0) - (1/dtheta) int W dq varies by " + fmt_g(spreadD, 4) + " over the core, allowed " + fmt_g(tolD, 4) + " (rho0: zero-current equilibrium of the same discretisation; the wake-induced distortion sigma_E^2 ln(rho/rho0) itself varies by " + fmt_g(spreadW, 4) + ")" + ctx);
        // (2) absolute form as the property states it, with the discretisation error of the RF + Fokker-Planck equilibrium allowed for
        double tol = 0.008 + 1.4 * dq * dq + 0.08 * spreadG;
        if (cfg.interp == 4 && !(spreadH <= tol)) o.fail("C05.haissinski_absolute", "sigma_E^2 ln rho + q^2/2 - (1/dtheta) int W dq varies by " + fmt_g(spreadH, 4) + " over the core (q=" + fmt_g(q[imin], 4) + " .. " + fmt_g(q[imax], 4) + "), allowed " + fmt_g(tol, 4) + "; without the wake term the variation is " + fmt_g(spreadG, 4) + ctx);
        double se = esp[nrec - 1];
        double tau = 0.012 + (cfg.deriv == 3 ? 0.45 : 0.25) * dpp * dpp;
        if (!(std::fabs(se - 1) <= tau)) o.fail("C05.energy_spread", "stationary energy spread " + fmt_g(se, 6) + " instead of 1 +- " + fmt_g(tau, 3) + ctx);
        std::string db = spreadW < 0.05 ? "weak" : spreadW < 0.3 ? "mild" : "strong";
        std::string sb = cfg.steps < 120 ? "s<120" : cfg.steps < 300 ? "s<300" : "s>=300";
        std::string sh = (cfg.shiftx == 0 && cfg.shifty == 0) ? "centred" : cfg.shiftx == cfg.shifty ? "eq" : "uneq";
        o.probe("cls." + kind + "." + db + "." + sb + "." + sh + (n < 72 ? ".g<72" : n < 100 ? ".g<100" : ".g>=100") + ".ip" + std::to_string(cfg.interp));
        if (cfg.zoom <= 0.3) o.probe("reach.start_with_exact_zero_columns");
        if (cfg.zoom >= 1.5) o.probe("reach.broad_start");
        { double wm = 0; for (unsigned i = 0; i < n; i++) wm = std::max(wm, std::fabs((double)W[i])); if (wm > 1) o.probe("reach.per_step_wake_kick_exceeds_one_cell"); o.hints["wm"] = fmt_g(wm, 3); }
        if (spreadW >= 0.3) o.probe("reach.order_one_distortion");
        if (spreadW < 0.05) o.probe("reach.weak_distortion");
        o.nontrivial = spreadW >= 0.05;
        o.sample = "D=" + fmt_g(spreadD, 4) + " Wd=" + fmt_g(spreadW, 4) + " lambda=" + o.hints["lambda"] + " ratio=" + fmt_g(spreadH / std::max(spreadG, 1e-9), 4) + " spreadH=" + fmt_g(spreadH, 4) + " spreadG=" + fmt_g(spreadG, 4) + " sE=" + fmt_g(se, 6) + " maxkick=" + o.hints["wm"] + "cells" + ctx;
        return o;
    }

    std::vector<Plan> shrink_candidates(const Plan& p, const Outcome&) const override {
        std::vector<Plan> out;
        Cfg c = Cfg::from_plan(p);
        auto with = [&](std::function<void(Cfg&)> f) { Cfg d = c; Plan q = p; f(d); d.to_plan(q); if (!(q == p)) out.push_back(q); };
        with([](Cfg& d) { d.shiftx = d.shifty = 0; });
        with([](Cfg& d) { d.shifty = 0; });
        with([](Cfg& d) { d.renorm = 0; d.zoom = 1; d.padding = 8; d.roundpad = true; d.interp = 4; d.deriv = 4; });
        with([](Cfg& d) { if (d.steps > 120) d.steps = 100; });
        return out;
    }
};

ScenarioRegistrar reg(new C05());

} // namespace
} // namespace sim
