#include "common.hpp"
#include <cmath>
#include <cstring>

namespace sim {

const std::vector<std::string>& record_datasets() {
    static const std::vector<std::string> v = {
        "/Info/AxisValues_t", "/BunchProfile/data", "/BunchLength/data", "/BunchPosition/data",
        "/EnergyProfile/data", "/EnergySpread/data", "/EnergyAverage/data", "/BunchPopulation/data",
        "/CSR/Spectrum/data", "/CSR/Intensity/data", "/Particles/data"};
    return v;
}

Cfg swarm_cfg(Rng& r, const SwarmOpts& o) {
    Cfg c;
    c.grid = r.range(o.min_grid, o.max_grid);
    c.pssize = r.chance(0.4) ? 12 : std::round(r.uniform(8, 16) * 4) / 4;
    if (o.allow_shift && r.chance(0.4)) {
        c.shiftx = r.chance(0.5) ? (double)r.range(-4, 4) : std::round(r.uniform(-4, 4) * 8) / 8;
        c.shifty = r.chance(0.5) ? (double)r.range(-4, 4) : std::round(r.uniform(-4, 4) * 8) / 8;
    }
    c.steps = r.range(o.min_steps, o.max_steps);
    long nsteps = r.range((long)o.min_rot_steps, (long)o.max_rot_steps);
    c.rotations = nsteps > 0 ? (nsteps - 0.5) / (double)c.steps : 0;
    {
        std::vector<long> outs = {0, 1, 1, 2, 3, 5, nsteps, nsteps + 3};
        c.outstep = r.pick(outs);
        c.saveps = r.pick(std::vector<long>{0, 0, 1, 1, 2, 3});
    }
    c.interp = o.allow_interp1 && r.chance(0.1) ? 1 : r.pick(std::vector<long>{2, 3, 4, 4});
    c.deriv = r.pick(std::vector<long>{3, 4});
    c.clamp = r.chance(0.25);
    c.renorm = r.pick(std::vector<long>{-1, 0, 0, 1, 3, 7});
    // padding >= 2: with less, HDF5File cannot create its datasets (chunk larger than the fixed dimension
    // nmax/2) and the program ends with "Aborted." and no results file; C17 explores that range
    c.padding = r.chance(0.5) ? (double)r.range(2, 4) : std::round(r.uniform(2, 4) * 100) / 100;
    c.roundpad = r.chance(0.5);
    if (o.allow_fp) {
        c.fptype = r.pick(std::vector<long>{3, 3, 3, 0, 1, 2});
        c.tdamp = r.chance(0.5) ? -1 : (r.chance(0.3) ? 0 : r.loguniform(5e-4, 1e-2));
    } else { c.tdamp = 0; }
    c.fptrack = r.range(0, 3);
    c.linearRF = r.chance(0.7);
    c.zoom = r.chance(0.5) ? 1 : std::round(r.uniform(0.7, 1.3) * 100) / 100;
    // filling pattern
    if (o.allow_multibunch && r.chance(0.35)) {
        long nb = r.range(2, 3);
        c.currents.clear();
        bool any = false;
        for (long i = 0; i < nb; i++) {
            if (r.chance(0.3)) c.currents.push_back(0);
            else { c.currents.push_back(std::round(r.uniform(0.5e-3, 3e-3) * 1e5) / 1e5); any = true; }
        }
        if (!any) c.currents[(size_t)r.range(0, nb - 1)] = 1e-3;
    } else {
        c.currents = {std::round(r.uniform(0.5e-3, 3e-3) * 1e5) / 1e5};
    }
    // impedance
    c.gap = 0;
    if (o.allow_wake && r.chance(0.6)) {
        int kind = (int)r.range(0, 4);
        if (kind == 0) c.gap = 0.03;
        else if (kind == 1) c.gap = -1;
        else if (kind == 2) { c.gap = 0.03; c.useCSR = false; c.wallcond = 5e7; }
        else if (kind == 3) { c.gap = 0.03; c.useCSR = r.chance(0.5); c.collimator = 0.005; }
        else { c.gap = 0.02; c.wallcond = r.chance(0.5) ? 3e7 : 0; }
    }
    // RF modulation / noise
    if (o.allow_dynrf && r.chance(0.3)) {
        Derived d = derive(c);
        if (r.chance(0.7)) { c.rf_mod_ampl = std::round(r.uniform(0.05, 0.5) * 1000) / 1000; c.rf_mod_freq = std::round(d.fs * r.uniform(0.5, 2.0)); }
        if (o.allow_noise && r.chance(0.5)) c.rf_phase_spread = 0.01;
        if (o.allow_noise && r.chance(0.3)) c.rf_ampl_spread = 1e-4;
        if (c.rf_mod_ampl == 0 && c.rf_phase_spread == 0 && c.rf_ampl_spread == 0) { c.rf_mod_ampl = 0.1; c.rf_mod_freq = std::round(d.fs); }
    }
    c.verbose = r.chance(0.3);
    return c;
}

void vary_machine(Rng& r, Cfg& c) {
    unsigned nsteps = derive(c).laststep;
    if (r.chance(0.3)) c.fs = std::round(r.uniform(2e4, 8e4));
    if (r.chance(0.25)) c.rbend = std::round(r.uniform(3, 9) * 100) / 100;
    if (r.chance(0.3)) { c.E0 = std::round(r.uniform(0.9e9, 1.8e9)); c.sE = std::round(r.uniform(3e-4, 7e-4) * 1e6) / 1e6; }
    if (r.chance(0.25)) c.VRF = std::round(r.uniform(0.7e6, 2e6));
    if (r.chance(0.2)) c.frev = std::round(r.uniform(2e6, 1.2e7));
    if (r.chance(0.25)) c.fc = r.chance(0.3) ? 0 : std::round(r.loguniform(1e9, 1e12));        // shielding cut-off of the CSR spectrum (0: none)
    if (c.wallcond > 0 && r.chance(0.4)) c.wallsusc = std::round(r.uniform(-0.5, 3) * 100) / 100;   // relative permeability 1+xi > 0
    if (r.chance(0.2)) { c.steps_per_rev = std::round(r.uniform(0.03, 0.4) * 1000) / 1000; if (derive(c).steps < 10) c.steps_per_rev = std::ceil(10.5 * derive(c).fs / derive(c).f_rev * 1000) / 1000; }
    // keep the run length in steps and dependent quantities meaningful
    Derived d = derive(c);
    c.rotations = nsteps > 0 ? (nsteps - 0.5) / d.steps : 0;
    if (c.rf_mod_freq > 0) c.rf_mod_freq = std::round(d.fs * r.uniform(0.5, 2.0));
    if (c.tdamp > 0) c.tdamp = 2.0 / (d.fs * r.loguniform(2e-3, 2e-2) * d.steps);
}

// Widen a swarm configuration towards the whole documented domain. Only for oracles that compare two executions of the same
// binary bit for bit (C11 without renormalisation, C12, C14, C19 flush): they need no error model, so unusual numbers cannot
// raise alarms; what they can do is reach code the tame swarm never enters.
void wild_cfg(Rng& r, Cfg& c) {
    const Cfg before = c;
    unsigned nsteps = derive(c).laststep;
    if (r.chance(0.4)) c.zoom = std::round(r.uniform(0.2, 3) * 100) / 100;
    if (r.chance(0.35)) { c.shiftx = std::round(r.uniform(-0.35, 0.35) * c.grid * 4) / 4; c.shifty = std::round(r.uniform(-0.35, 0.35) * c.grid * 4) / 4; }
    if (r.chance(0.3)) c.pssize = std::round(r.uniform(4, 20) * 4) / 4;
    if (r.chance(0.3)) c.padding = r.chance(0.5) ? (double)r.range(2, 8) : std::round(r.uniform(2, 8) * 100) / 100;
    if (r.chance(0.2)) c.VRF = std::round(r.loguniform(3e5, 1e7));
    if (r.chance(0.15)) c.interp = 1;
    if (r.chance(0.3)) { c.alpha1 = std::round(r.uniform(-0.05, 0.05) * 1e4) / 1e4; if (r.chance(0.5)) c.alpha2 = std::round(r.uniform(-0.5, 0.5) * 1e3) / 1e3; }
    if (c.rf_mod_ampl > 0 && r.chance(0.3)) c.rf_mod_ampl = std::round(r.uniform(1, 300) * 10) / 10;     // degrees: beyond +-180 too
    if (r.chance(0.2)) c.grid = c.grid | 1;                                                               // odd grid
    if (r.chance(0.5)) vary_machine(r, c);
    if (r.chance(0.2)) { for (int t = 0; t < 20; t++) { c.H = (double)r.pick(std::vector<long>{r.range(20, 400), r.range(400, 3000), 65, 184}); if (derive(c).spacing_ps >= 1.0) break; c.H = before.H; } }
    if (r.chance(0.15) && c.tdamp != 0) c.tdamp = r.loguniform(2e-4, 5e-2);
    Derived d = derive(c);
    // run-time and stability bounds of the harness: transform length, steps per period, per-step decrement inside the stable range
    if (d.wake_nmax > 20000 || d.padded_bins > 20000 || d.steps < 10 || d.spacing_ps < 1.0 || !(d.e1 < 0.45 * d.delta_p * d.delta_p)) { c = before; return; }
    c.rotations = nsteps > 0 ? (nsteps - 0.5) / d.steps : 0;
    if (derive(c).laststep != nsteps) c = before;
}

std::string gen_tracking(Rng& r, const Cfg& c, long n) {
    Derived d = derive(c);
    std::string s;
    for (long i = 0; i < n; i++) {
        double q = r.uniform(d.qmin * 0.8, d.qmax * 0.8), p = r.uniform(d.pmin * 0.8, d.pmax * 0.8);
        s += fmt_g(q, 6) + " " + fmt_g(p, 6) + "\n";
    }
    return s;
}

std::string gen_impedance(Rng& r, long rows, double scale) {
    std::string s;
    for (long i = 0; i < rows; i++)
        s += std::to_string(i) + "\t" + fmt_g(scale * r.uniform(0, 1), 6) + "\t" + fmt_g(scale * r.uniform(-0.5, 0.5), 6) + "\n";
    return s;
}

void stage_inputs(const Plan& p, const std::string& dir) {
    for (auto& kv : p.kv)
        if (starts_with(kv.first, "file.")) write_file(dir + "/" + kv.first.substr(5), kv.second);
}

Launch make_launch(const Cfg& c, const std::string& dir, const std::string& tag, uint64_t entropy, int planner) {
    Launch l;
    l.args = c.args();
    l.dir = dir;
    l.tag = tag;
    l.rt.entropy_seed = entropy;
    l.rt.planner_mode = planner;
    return l;
}

std::string cmp_row(const H5Snap& a, size_t ra, const H5Snap& b, size_t rb, const std::string& name) {
    auto x = a.get(name), y = b.get(name);
    if (!x || !y) return (x || y) ? name + ": present in one file only" : "";
    if (x->rowlen() != y->rowlen() || x->esize != y->esize) return name + ": row shapes differ";
    if (ra >= x->rows() || rb >= y->rows()) return name + ": row index out of range (" + std::to_string(ra) + "/" + std::to_string(x->rows()) + ", " + std::to_string(rb) + "/" + std::to_string(y->rows()) + ")";
    size_t rl = x->rowlen() * x->esize;
    if (rl == 0) return "";
    if (memcmp(x->bytes.data() + ra * rl, y->bytes.data() + rb * rl, rl) != 0) {
        size_t n = x->rowlen();
        for (size_t i = 0; i < n; i++) {
            double u = x->at(ra * n + i), v = y->at(rb * n + i);
            if (memcmp(x->bytes.data() + (ra * n + i) * x->esize, y->bytes.data() + (rb * n + i) * y->esize, x->esize) != 0)
                return name + ": record " + std::to_string(ra) + " vs " + std::to_string(rb) + " differs at element " + std::to_string(i) +
                       " (" + fmt_g(u, 9) + " vs " + fmt_g(v, 9) + ")";
        }
    }
    return "";
}

std::string cmp_rows(const H5Snap& a, const H5Snap& b, const std::string& name, size_t n) {
    for (size_t r = 0; r < n; r++) {
        std::string e = cmp_row(a, r, b, r, name);
        if (!e.empty()) return e;
    }
    return "";
}

std::function<bool(const std::string&)> all_but(const std::vector<std::string>& excluded) {
    return [excluded](const std::string& p) {
        for (auto& e : excluded) if (p == e) return false;
        return true;
    };
}

std::string tail(const std::string& s, size_t n) { return s.size() <= n ? s : s.substr(s.size() - n); }
bool log_has(const std::string& text, const std::string& needle) { return text.find(needle) != std::string::npos; }

std::vector<std::string> structure_problems(const H5Snap& s, const Cfg& c, const Derived& d, unsigned executed) {
    std::vector<std::string> out;
    if (!s.ok) { out.push_back("file unreadable: " + s.error); return out; }
    Schedule sch = schedule(c, executed);
    auto t = s.get(TIME_AXIS);
    if (!t) { out.push_back("no time axis"); return out; }
    size_t nrec = t->rows();
    if (nrec != sch.out_steps.size())
        out.push_back("time axis has " + std::to_string(nrec) + " records, schedule model says " + std::to_string(sch.out_steps.size()));
    for (auto& name : record_datasets()) {
        auto o = s.get(name);
        if (!o) { out.push_back(name + " missing"); continue; }
        if (o->rows() != nrec) out.push_back(name + " has " + std::to_string(o->rows()) + " records, time axis " + std::to_string(nrec));
    }
    auto w = s.get("/WakePotential/data");
    if (!w) out.push_back("/WakePotential/data missing");
    else if (w->rows() != (d.has_wake ? nrec : 0)) out.push_back("/WakePotential/data has " + std::to_string(w->rows()) + " records, expected " + std::to_string(d.has_wake ? nrec : 0));
    auto pa = s.get(PS_AXIS), pd = s.get(PS_DATA);
    if (!pa || !pd) out.push_back("phase space datasets missing");
    else {
        if (pa->rows() != pd->rows()) out.push_back("/PhaseSpace/data has " + std::to_string(pd->rows()) + " records, its axis " + std::to_string(pa->rows()));
        if (pa->rows() != sch.ps_steps.size()) out.push_back("/PhaseSpace/axis0 has " + std::to_string(pa->rows()) + " records, schedule model says " + std::to_string(sch.ps_steps.size()));
        else for (size_t i = 0; i < sch.ps_steps.size(); i++) {
            float expect = (float)((double)sch.ps_steps[i] / d.steps);
            if ((float)pa->at(i) != expect) { out.push_back("/PhaseSpace/axis0[" + std::to_string(i) + "]=" + fmt_g(pa->at(i), 9) + " expected " + fmt_g(expect, 9)); break; }
        }
    }
    if (nrec == sch.out_steps.size()) for (size_t i = 0; i < nrec; i++) {
        float expect = (float)((double)sch.out_steps[i] / d.steps);
        if ((float)t->at(i) != expect) { out.push_back("time axis[" + std::to_string(i) + "]=" + fmt_g(t->at(i), 9) + " expected " + fmt_g(expect, 9)); break; }
    }
    auto rf = s.get(RF_DATA);
    if (!rf) out.push_back("/RFKicks/data missing");
    else {
        size_t expect = d.dynamic_rf ? executed : 0;
        if (rf->rows() != expect) out.push_back("/RFKicks/data has " + std::to_string(rf->rows()) + " rows, steps executed " + std::to_string(expect));
    }
    for (auto name : {"/BunchProfile/padded", "/WakePotential/padded"}) {
        auto o = s.get(name);
        if (!o) { out.push_back(std::string(name) + " missing"); continue; }
        size_t expect = d.has_wake ? 2 : 0;
        if (o->rows() != expect) out.push_back(std::string(name) + " has " + std::to_string(o->rows()) + " records, expected " + std::to_string(expect));
    }
    return out;
}

double max_abs(const std::vector<double>& v) { double m = 0; for (double x : v) m = std::max(m, std::fabs(x)); return m; }
uint32_t f2u(float f) { uint32_t u; memcpy(&u, &f, 4); return u; }
long ulp_diff(float a, float b) {
    if (a == b) return 0;
    if (std::isnan(a) || std::isnan(b)) return 1L << 40;
    int32_t x = (int32_t)f2u(a), y = (int32_t)f2u(b);
    if (x < 0) x = (int32_t)0x80000000 - x;
    if (y < 0) y = (int32_t)0x80000000 - y;
    return std::labs((long)x - (long)y);
}

} // namespace sim
