// Program mode: one launch = one process life of the real inovesa main().
#pragma once
#include "rt.hpp"
#include "util.hpp"
#include <map>
#include <string>
#include <vector>

namespace sim {

struct Launch {
    std::vector<std::string> args;   // argv[1..]
    std::string dir;                 // private run directory (cwd of the child)
    std::string tag = "run";         // stdout/stderr/summary go to <dir>/<tag>.out/.err/.sum
    simrt::Config rt;                // seam settings of this launch
    int timeout_s = 300;
};

struct LaunchResult {
    bool exited = false;     // ended by exit()/return
    int code = -1;           // exit status when exited
    int sig = 0;             // terminating signal otherwise
    bool timed_out = false;
    bool sanitizer = false;  // exit code 77 (ASan/UBSan build)
    std::string out, err;
    bool has_summary = false;
    std::map<std::string, std::string> sum;
    std::vector<std::string> raised;     // "kind:label:idx:loop_heads:steps_done:phase"
    std::map<std::string, long> label_hits;
    long sumi(const std::string& k, long d = 0) const {
        auto i = sum.find(k); return i == sum.end() ? d : strtol(i->second.c_str(), nullptr, 10);
    }
    uint64_t evhash() const { auto i = sum.find("evhash"); return i == sum.end() ? 0 : strtoull(i->second.c_str(), nullptr, 10); }
    std::string describe() const;
    bool clean_exit() const { return exited && !sanitizer; }
};

LaunchResult run_launch(const Launch& l);

// counters over all launches of this worker process (for evidence)
struct LaunchStats { long launches = 0, signals = 0, faults = 0, steps = 0; };
LaunchStats& launch_stats();

// helpers for run directories
std::string make_dir(const std::string& path);        // mkdir -p, returns path
void remove_tree(const std::string& path);

} // namespace sim
