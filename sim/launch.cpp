#include "launch.hpp"

#include <cerrno>
#include <csignal>
#include <cstdlib>
#include <fcntl.h>
#include <sys/stat.h>
#include <sys/wait.h>
#include <unistd.h>
#include <dirent.h>

#ifndef INOVESA_ALLOW_PS_RESET
#define INOVESA_ALLOW_PS_RESET 1
#endif
#include "PS/PhaseSpace.hpp"
#include "IO/Display.hpp"
#include <fftw3.h>

// main() of /repo/src/main.cpp, compiled with -Dmain=inovesa_main
int inovesa_main(int argc, char** argv);

namespace sim {

static LaunchStats g_stats;
LaunchStats& launch_stats() { return g_stats; }

std::string make_dir(const std::string& path) {
    std::string cur;
    for (auto& part : split(path, '/')) {
        if (part.empty()) { if (cur.empty()) cur = "/"; continue; }
        if (cur.empty() || cur.back() != '/') cur += "/";
        cur += part;
        mkdir(cur.c_str(), 0777);
    }
    return path;
}

void remove_tree(const std::string& path) {
    DIR* d = opendir(path.c_str());
    if (!d) { unlink(path.c_str()); return; }
    while (dirent* e = readdir(d)) {
        std::string n = e->d_name;
        if (n == "." || n == "..") continue;
        std::string p = path + "/" + n;
        struct stat st;
        if (lstat(p.c_str(), &st) == 0 && S_ISDIR(st.st_mode)) remove_tree(p);
        else unlink(p.c_str());
    }
    closedir(d);
    rmdir(path.c_str());
}

std::string LaunchResult::describe() const {
    std::string s;
    if (exited) s = "exit " + std::to_string(code);
    else s = "signal " + std::to_string(sig) + (timed_out ? " (timeout)" : "");
    if (sanitizer) s += " (sanitizer)";
    return s;
}

LaunchResult run_launch(const Launch& l) {
    LaunchResult r;
    make_dir(l.dir);
    std::string base = l.dir + "/" + l.tag;
    fflush(nullptr);
    pid_t pid = fork();
    if (pid < 0) { r.err = "fork failed"; return r; }
    if (pid == 0) {
        // ---- child: becomes one life of the program
        if (chdir(l.dir.c_str()) != 0) _exit(120);
        int fo = open((l.tag + ".out").c_str(), O_WRONLY | O_CREAT | O_TRUNC, 0666);
        int fe = open((l.tag + ".err").c_str(), O_WRONLY | O_CREAT | O_TRUNC, 0666);
        if (fo < 0 || fe < 0) _exit(121);
        dup2(fo, 1); dup2(fe, 2); close(fo); close(fe);
        int fi = open("/dev/null", O_RDONLY); if (fi >= 0) { dup2(fi, 0); close(fi); }
        setenv("HOME", l.dir.c_str(), 1);
        setenv("XDG_DATA_HOME", (l.dir + "/xdg").c_str(), 1);
        setenv("TZ", "UTC", 1);
        signal(SIGINT, SIG_DFL);
        alarm((unsigned)l.timeout_s);
        // a launch is a fresh process life: undo whatever API-mode work of this worker left in the
        // program's process-wide state (grid size latch, display flags, in-memory FFT wisdom)
        vfps::PhaseSpace::resetSize();
        vfps::Display::silent_mode = false;
        vfps::Display::abort = false;
        fftwf_forget_wisdom();
        fftw_forget_wisdom();
        simrt::Config c = l.rt;
        c.active = true;
        c.summary_path = l.tag + ".sum";
        simrt::install(c);
        std::vector<std::string> store;
        store.push_back("inovesa");
        for (auto& a : l.args) store.push_back(a);
        std::vector<char*> argv;
        for (auto& s : store) argv.push_back(const_cast<char*>(s.c_str()));
        argv.push_back(nullptr);
        int rc = inovesa_main((int)store.size(), argv.data());
        // leave like the shipped program does: return from main == exit(rc); libhdf5 closes the
        // never-deleted HDF5File in its atexit handler
        exit(rc);
    }
    int status = 0;
    while (waitpid(pid, &status, 0) < 0 && errno == EINTR) {}
    if (WIFEXITED(status)) { r.exited = true; r.code = WEXITSTATUS(status); r.sanitizer = (r.code == 77); }
    else if (WIFSIGNALED(status)) { r.sig = WTERMSIG(status); r.timed_out = (r.sig == SIGALRM); }
    r.out = read_file(base + ".out");
    r.err = read_file(base + ".err");
    if (r.exited && r.code == 78 && getenv("VERIF_VGLOG_DIR")) {
        // valgrind writes its report to its own log, not to the child's redirected stderr
        r.err += read_file(std::string(getenv("VERIF_VGLOG_DIR")) + "/vg-" + std::to_string((long)pid) + ".log");
    }
    bool ok = false;
    std::string s = read_file(base + ".sum", &ok);
    if (ok) {
        r.has_summary = true;
        for (auto& line : split(s, '\n')) {
            size_t e = line.find('=');
            if (e == std::string::npos) continue;
            std::string k = line.substr(0, e), v = line.substr(e + 1);
            if (k == "raised") r.raised.push_back(v);
            else if (starts_with(k, "label.")) r.label_hits[k.substr(6)] = strtol(v.c_str(), nullptr, 10);
            else r.sum[k] = v;
        }
    }
    g_stats.launches++;
    g_stats.signals += (long)r.raised.size();
    g_stats.faults += r.sumi("faults_fired");
    g_stats.steps += r.sumi("steps_done");
    return r;
}

} // namespace sim
