#include "rt.hpp"
#include "util.hpp"

#include <csignal>
#include <cstdlib>
#include <cerrno>
#include <cstdarg>
#include <dlfcn.h>
#include <fcntl.h>
#include <unistd.h>
#include <fftw3.h>
#include <set>
#include <cmath>

namespace simrt {

// Never destroyed: the interposers below are still called while shared libraries are finalised
// (libhdf5 closes the results file in its own finaliser, after the executable's static destructors).
static Config& g_cfg = *new Config;
static State& g_st = *new State;
static bool g_atexit_registered = false;
static std::set<int>& g_fault_fds = *new std::set<int>;
static long g_fault_matches = 0;
static bool g_summary_written = false;
struct C2RPlan { fftwf_complex* in; int n; };
static std::map<fftwf_plan, C2RPlan>& g_c2r = *new std::map<fftwf_plan, C2RPlan>;

// after the summary has been written (atexit), later events are appended to it line by line
static void late_append(const std::string& line) {
    if (g_cfg.summary_path.empty()) return;
    FILE* f = fopen(g_cfg.summary_path.c_str(), "a");
    if (f) { fwrite(line.data(), 1, line.size(), f); fclose(f); }
}

const State& state() { return g_st; }
const Config& config() { return g_cfg; }

void event(const std::string& e) {
    g_st.evhash = sim::hash_str(e, g_st.evhash);
    g_st.evhash = sim::hash_str("\n", g_st.evhash);
    if (g_cfg.text_log) { g_st.text += e; g_st.text += '\n'; }
}

uint32_t entropy_value(uint64_t seed, long index) {
    return (uint32_t)(sim::Rng::mix(seed, 0x5EEDull + (uint64_t)index) >> 16);
}

void write_summary() {
    if (g_cfg.summary_path.empty()) return;
    std::string o;
    o += "point_hits=" + std::to_string(g_st.point_hits) + "\n";
    o += "loop_heads=" + std::to_string(g_st.loop_heads) + "\n";
    o += "steps_done=" + std::to_string(g_st.steps_done) + "\n";
    o += "after_loop=" + std::to_string((int)g_st.after_loop) + "\n";
    o += "entropy_reads=" + std::to_string(g_st.entropy_reads) + "\n";
    o += "clock_reads=" + std::to_string(g_st.clock_reads) + "\n";
    o += "planner_calls=" + std::to_string(g_st.planner_calls) + "\n";
    o += "wisdom_imports=" + std::to_string(g_st.wisdom_imports) + "\n";
    o += "wisdom_exports=" + std::to_string(g_st.wisdom_exports) + "\n";
    o += "scribbles=" + std::to_string(g_st.scribbles) + "\n";
    o += "io_writes=" + std::to_string(g_st.io_writes) + "\n";
    o += "io_reads=" + std::to_string(g_st.io_reads) + "\n";
    o += "io_opens=" + std::to_string(g_st.io_opens) + "\n";
    o += "faults_fired=" + std::to_string(g_st.faults_fired) + "\n";
    o += "signals_raised=" + std::to_string(g_st.signals_raised) + "\n";
    o += "evhash=" + std::to_string(g_st.evhash) + "\n";
    for (auto& r : g_st.raised_at) o += "raised=" + r + "\n";
    for (auto& l : g_st.label_hits) o += "label." + l.first + "=" + std::to_string(l.second) + "\n";
    if (g_cfg.text_log) o += "text=" + sim::esc(g_st.text) + "\n";
    // plain write(2) via stdio; the run directory is private to this launch
    FILE* f = fopen(g_cfg.summary_path.c_str(), "w");
    if (f) { fwrite(o.data(), 1, o.size(), f); fclose(f); }
    g_summary_written = true;
}

void install(const Config& c) {
    g_cfg = c;
    g_st = State();
    g_fault_fds.clear();
    g_fault_matches = 0;
    g_summary_written = false;
    if (!g_atexit_registered && !c.summary_path.empty()) {
        g_atexit_registered = true;
        atexit(write_summary);
    }
}
void uninstall() { g_cfg = Config(); }

static std::string phase_string() {
    return std::to_string(g_st.loop_heads) + ":" + std::to_string(g_st.steps_done) + ":" +
           (g_st.after_loop ? "post" : (g_st.in_loop ? "loop" : "setup")) + ":" + std::to_string(g_st.point_hits) +
           ":" + (g_st.report_decided ? "1" : "0");
}

static void maybe_raise(const std::vector<long>& list, long idx, const char* kind, const char* label) {
    for (long p : list) {
        if (p == idx) {
            g_st.signals_raised++;
            g_st.raised_at.push_back(std::string(kind) + ":" + label + ":" + std::to_string(idx) + ":" + phase_string());
            event(std::string("SIGINT ") + kind + " " + label);
            if (g_summary_written) late_append("raised=" + g_st.raised_at.back() + "\nsignals_raised=" + std::to_string(g_st.signals_raised) + "\n");
            raise(SIGINT);   // the program's own handler runs synchronously, exactly as for a terminal ^C
        }
    }
}

} // namespace simrt

using namespace simrt;

// ------------------------------------------------------------------ S1: hook points in main()
extern "C" void inovesa_verif_point(const char* label) {
    if (!g_cfg.active) return;
    long idx = g_st.point_hits++;
    if (!strcmp(label, "loop_head")) { g_st.loop_heads++; g_st.in_loop = true; }
    else if (!strcmp(label, "step_done")) { g_st.steps_done++; }
    else if (!strcmp(label, "loop_exit")) { g_st.in_loop = false; g_st.after_loop = true; }
    g_st.label_hits[label]++;
    g_st.evhash = sim::hash_str(label, g_st.evhash);
    if (g_cfg.text_log) { g_st.text += "P "; g_st.text += label; g_st.text += '\n'; }
    if (!g_cfg.sigint_points.empty()) maybe_raise(g_cfg.sigint_points, idx, "point", label);
    // a signal raised at "before_report" itself still precedes the Aborted/Finished decision
    if (!strcmp(label, "before_report")) g_st.report_decided = true;
}

// ------------------------------------------------------------------ S5: entropy
extern "C" unsigned int __real__ZNSt13random_device9_M_getvalEv(void* self);
extern "C" unsigned int __wrap__ZNSt13random_device9_M_getvalEv(void* self) {
    if (!g_cfg.active) return __real__ZNSt13random_device9_M_getvalEv(self);
    long i = g_st.entropy_reads++;
    uint32_t v = entropy_value(g_cfg.entropy_seed, i);
    event("ENTROPY " + std::to_string(i));
    return v;
}

// ------------------------------------------------------------------ S6: clock
// std::chrono::system_clock::time_point is one int64 (ns since epoch) returned in RAX.
extern "C" long __real__ZNSt6chrono3_V212system_clock3nowEv(void);
extern "C" long __wrap__ZNSt6chrono3_V212system_clock3nowEv(void) {
    if (!g_cfg.active) return __real__ZNSt6chrono3_V212system_clock3nowEv();
    long i = g_st.clock_reads++;
    // a signal that lands in the middle of a library call made from inside the program's own message routine
    // (the very first read precedes the installation of the program's handler: "after start-up" begins at the first hook point)
    if (!g_cfg.sigint_clocks.empty() && g_st.point_hits > 0) maybe_raise(g_cfg.sigint_clocks, i, "clock", "now");
    long ms = 1000 + i;
    if (g_cfg.clock_jump_at >= 0 && i >= g_cfg.clock_jump_at) ms += g_cfg.clock_jump_ms;
    return ms * 1000000L;
}

// ------------------------------------------------------------------ S7: FFT planner
extern "C" fftwf_plan __real_fftwf_plan_dft_r2c_1d(int n, float* in, fftwf_complex* out, unsigned flags);
extern "C" fftwf_plan __real_fftwf_plan_dft_c2r_1d(int n, fftwf_complex* in, float* out, unsigned flags);
extern "C" int __real_fftwf_import_wisdom_from_filename(const char* fn);
extern "C" int __real_fftwf_export_wisdom_to_filename(const char* fn);

extern "C" fftwf_plan __wrap_fftwf_plan_dft_r2c_1d(int n, float* in, fftwf_complex* out, unsigned flags) {
    if (g_cfg.active) {
        g_st.planner_calls++;
        event("PLAN r2c " + std::to_string(n) + " mode" + std::to_string(g_cfg.planner_mode));
        if (g_cfg.planner_mode == 0) flags = FFTW_ESTIMATE;
    }
    return __real_fftwf_plan_dft_r2c_1d(n, in, out, flags);
}
extern "C" fftwf_plan __wrap_fftwf_plan_dft_c2r_1d(int n, fftwf_complex* in, float* out, unsigned flags) {
    if (g_cfg.active) {
        g_st.planner_calls++;
        event("PLAN c2r " + std::to_string(n) + " mode" + std::to_string(g_cfg.planner_mode));
        if (g_cfg.planner_mode == 0) flags = FFTW_ESTIMATE;
    }
    fftwf_plan pl = __real_fftwf_plan_dft_c2r_1d(n, in, out, flags);
    if (pl) g_c2r[pl] = C2RPlan{in, n};
    return pl;
}
extern "C" void __real_fftwf_execute(const fftwf_plan p);
extern "C" void __wrap_fftwf_execute(const fftwf_plan p) {
    __real_fftwf_execute(p);
    if (g_cfg.active && g_cfg.c2r_scribble) {
        auto it = g_c2r.find(p);
        if (it != g_c2r.end()) {
            g_st.scribbles++;
            for (int i = 0; i <= it->second.n / 2; i++) {
                float v = g_cfg.c2r_scribble == 2 ? NAN : 1e3f * (float)(1 + (i * 7 + g_st.scribbles) % 13);
                it->second.in[i][0] = v; it->second.in[i][1] = -v;
            }
        }
    }
}
extern "C" void __real_fftwf_destroy_plan(fftwf_plan p);
extern "C" void __wrap_fftwf_destroy_plan(fftwf_plan p) {
    g_c2r.erase(p);
    __real_fftwf_destroy_plan(p);
}
extern "C" int __wrap_fftwf_import_wisdom_from_filename(const char* fn) {
    if (g_cfg.active) {
        g_st.wisdom_imports++;
        if (g_cfg.planner_mode == 0) return 0;   // stub: there is never a wisdom file
    }
    return __real_fftwf_import_wisdom_from_filename(fn);
}
extern "C" int __wrap_fftwf_export_wisdom_to_filename(const char* fn) {
    if (g_cfg.active) {
        g_st.wisdom_exports++;
        if (g_cfg.planner_mode == 0) return 0;   // stub: nothing is written
    }
    return __real_fftwf_export_wisdom_to_filename(fn);
}

// ------------------------------------------------------------------ S1/S8: file layer as seen by libhdf5 / libstdc++
// Defined in the executable and exported (-rdynamic): calls made through the PLT of
// libhdf5.so / libstdc++.so resolve here first; we forward to libc with dlsym(RTLD_NEXT).
#ifndef SIM_NO_IO_INTERPOSE
template <class F> static F next_sym(const char* name) {
    return reinterpret_cast<F>(dlsym(RTLD_NEXT, name));
}

static bool path_faulty(const char* path) {
    return g_cfg.active && g_cfg.fault_kind != 0 && !g_cfg.fault_path.empty() && path &&
           strstr(path, g_cfg.fault_path.c_str()) != nullptr;
}
static bool nth_hit() {
    long i = g_fault_matches++;
    return g_cfg.fault_nth < 0 || g_cfg.fault_nth == i;
}

extern "C" ssize_t pwrite(int fd, const void* buf, size_t n, off_t off) {
    static auto real = next_sym<ssize_t (*)(int, const void*, size_t, off_t)>("pwrite");
    if (g_cfg.active) {
        long idx = g_st.io_writes++;
        if (g_summary_written) late_append("io_writes=" + std::to_string(g_st.io_writes) + "\n");
        if (!g_cfg.sigint_writes.empty()) maybe_raise(g_cfg.sigint_writes, idx, "pwrite", "io");
    }
    return real(fd, buf, n, off);
}
extern "C" ssize_t pread(int fd, void* buf, size_t n, off_t off) {
    static auto real = next_sym<ssize_t (*)(int, void*, size_t, off_t)>("pread");
    if (g_cfg.active) {
        g_st.io_reads++;
        if (g_fault_fds.count(fd) && (g_cfg.fault_kind == 2 || g_cfg.fault_kind == 3) && nth_hit()) {
            g_st.faults_fired++;
            event("FAULT pread kind" + std::to_string(g_cfg.fault_kind));
            if (g_cfg.fault_kind == 2) { errno = EIO; return -1; }
            return real(fd, buf, n / 2, off);
        }
    }
    return real(fd, buf, n, off);
}
extern "C" ssize_t read(int fd, void* buf, size_t n) {
    static auto real = next_sym<ssize_t (*)(int, void*, size_t)>("read");
    if (g_cfg.active && !g_fault_fds.empty() && g_fault_fds.count(fd) &&
        (g_cfg.fault_kind == 2 || g_cfg.fault_kind == 3) && nth_hit()) {
        g_st.faults_fired++;
        event("FAULT read kind" + std::to_string(g_cfg.fault_kind));
        if (g_cfg.fault_kind == 2) { errno = EIO; return -1; }
        return real(fd, buf, n > 1 ? n / 2 : n);
    }
    return real(fd, buf, n);
}
extern "C" int open(const char* path, int flags, ...) {
    static auto real = next_sym<int (*)(const char*, int, ...)>("open");
    mode_t mode = 0;
    if (flags & (O_CREAT | O_TMPFILE)) { va_list ap; va_start(ap, flags); mode = va_arg(ap, mode_t); va_end(ap); }
    if (g_cfg.active) g_st.io_opens++;
    if (path_faulty(path)) {
        if (g_cfg.fault_kind == 1 && nth_hit()) {
            g_st.faults_fired++;
            event("FAULT open");
            errno = g_cfg.fault_errno; return -1;
        }
        int fd = real(path, flags, mode);
        if (fd >= 0) g_fault_fds.insert(fd);
        return fd;
    }
    int fd = real(path, flags, mode);
    if (fd >= 0 && g_cfg.active) g_fault_fds.erase(fd);
    return fd;
}
extern "C" FILE* fopen64(const char* path, const char* mode) {
    static auto real = next_sym<FILE* (*)(const char*, const char*)>("fopen64");
    if (path_faulty(path)) {
        if (g_cfg.fault_kind == 1 && nth_hit()) {
            g_st.faults_fired++;
            event("FAULT fopen");
            errno = g_cfg.fault_errno; return nullptr;
        }
        FILE* f = real(path, mode);
        if (f) g_fault_fds.insert(fileno(f));
        return f;
    }
    FILE* f = real(path, mode);
    if (f && g_cfg.active) g_fault_fds.erase(fileno(f));
    return f;
}
#endif
