// API mode: the worker calls the library classes of /repo directly and repeatedly in-process,
// re-dimensioning the global grid through the repo's own test seam PhaseSpace::resetSize().
#pragma once
#ifndef INOVESA_ALLOW_PS_RESET
#define INOVESA_ALLOW_PS_RESET 1
#endif
#include "defines.hpp"
#include "IO/Display.hpp"
#include "PS/PhaseSpace.hpp"
#include "PS/ElectricField.hpp"
#include "Z/Impedance.hpp"
#include "SM/KickMap.hpp"
#include "SM/DriftMap.hpp"
#include "SM/RFKickMap.hpp"
#include "SM/DynamicRFKickMap.hpp"
#include "SM/FokkerPlanckMap.hpp"
#include "SM/Identity.hpp"
#include "SM/WakePotentialMap.hpp"

#include "rt.hpp"
#include "util.hpp"
#include <cstdlib>
#include <cstring>
#include <memory>

namespace sim {

// prepare the process for API mode: quiet Display, private wisdom directory, simulated seams
inline void api_begin(const std::string& workdir, uint64_t entropy, int planner, int c2r_scribble = 0) {
    vfps::Display::silent_mode = true;
    setenv("XDG_DATA_HOME", (workdir + "/xdg").c_str(), 1);
    setenv("HOME", workdir.c_str(), 1);
    simrt::Config c;
    c.active = true;
    c.entropy_seed = entropy;
    c.planner_mode = planner;
    c.c2r_scribble = c2r_scribble;
    simrt::install(c);
}
inline void api_end() { simrt::uninstall(); }

inline std::shared_ptr<vfps::PhaseSpace> make_ps(unsigned n, unsigned nb, float qmin, float qmax, float pmin, float pmax,
                                                 const std::vector<float>& shares, double zoom = 1.0) {
    vfps::PhaseSpace::resetSize(n, nb);
    std::vector<vfps::integral_t> f(shares.begin(), shares.end());
    return std::make_shared<vfps::PhaseSpace>(qmin, qmax, 1.0, pmin, pmax, 1.0, nullptr, 1.0, 1.0, f, zoom);
}

inline bool same_bits(const float* a, const float* b, size_t n, size_t* where = nullptr) {
    for (size_t i = 0; i < n; i++) if (std::memcmp(a + i, b + i, 4) != 0) { if (where) *where = i; return false; }
    return true;
}

} // namespace sim
