// C18: wake and CSR spectrum depend on the current profile only, not on past calls.
// Seeded operation histories on one ElectricField, compared bit for bit after every operation with a
// freshly constructed field object that is given the current profile and the same single operation.
#include "api.hpp"
#include "scen.hpp"

namespace sim {
namespace {

using namespace vfps;

struct FieldCfg {
    unsigned nx, nb, spacing; size_t nmax; std::vector<uint32_t> buckets; bool full; uint64_t zseed; long ztail; double zscale; int zupper = 0;
};

static std::shared_ptr<Impedance> make_z(const FieldCfg& f) {
    Rng r(f.zseed);
    std::vector<impedance_t> z(f.nmax, impedance_t(0, 0));
    size_t half = f.nmax / 2;
    // zupper 0: bins 0..n/2-1 only; 1: bins 0..n/2 (what the analytic models deliver); 2: every bin (e.g. a table as long as the
    // transform), with either sign of the real part above n/2 -- the object must not care about the upper half
    size_t filled = f.zupper == 0 ? half : f.zupper == 1 ? std::min(half + 1, f.nmax) : f.nmax;
    for (size_t i = 0; i < filled; i++) z[i] = impedance_t((float)(f.zscale * r.uniform(i >= half ? -1 : 0, 1)), (float)(f.zscale * r.uniform(-0.5, 0.5)));
    // a tail of exact zeros in the upper part of the used half (e.g. a table shorter than the transform)
    for (long i = 0; i < f.ztail && i < (long)half; i++) z[half - 1 - (size_t)i] = impedance_t(0, 0);
    return std::make_shared<Impedance>(z, 1e12f);
}

static std::unique_ptr<ElectricField> make_field(const FieldCfg& f, std::shared_ptr<PhaseSpace> ps, std::shared_ptr<Impedance> z) {
    if (f.full) return std::make_unique<ElectricField>(ps, z, f.buckets, f.spacing, nullptr, 1e6, 0.01f, 1e-3, 1e9, 1e-3, 1e-9);
    return std::make_unique<ElectricField>(ps, z, f.buckets, f.spacing, nullptr, 1e6);
}

// data set i: non-negative blobs of different position/width/amplitude per bunch
static void load_data(PhaseSpace& ps, unsigned nx, unsigned nb, uint64_t dseed, long i) {
    Rng r(Rng::mix(dseed, (uint64_t)i));
    float* d = ps.getData();
    int kind = (int)r.range(0, 3);
    long zero_bunch = (nb > 1 && r.chance(0.15)) ? r.range(0, (long)nb - 1) : -1;   // sometimes one bunch holds no charge at all
    for (unsigned b = 0; b < nb; b++) {
        double cx = r.uniform(0.2, 0.8) * nx, cy = r.uniform(0.3, 0.7) * nx, sx = r.uniform(0.05, 0.3) * nx, sy = r.uniform(0.1, 0.3) * nx, amp = r.uniform(0.1, 2);
        // nearly empty bunches: form factors whose squares are subnormal or underflow (a bucket holding 1e-10 .. 1e-30 of a bunch's charge)
        if (r.chance(0.2)) amp *= r.pick(std::vector<double>{1e-8, 1e-10, 1e-12, 1e-13, 1e-14, 1e-15, 1e-17, 1e-20, 1e-30});
        for (unsigned x = 0; x < nx; x++) for (unsigned y = 0; y < nx; y++) {
            double v;
            if (kind == 0) v = amp * std::exp(-0.5 * (std::pow((x - cx) / sx, 2) + std::pow((y - cy) / sy, 2)));
            else if (kind == 1) v = (std::fabs(x - cx) < sx && std::fabs(y - cy) < sy) ? amp : 0;            // compact support
            else if (kind == 2) v = amp * r.unit();                                                            // noise everywhere
            else v = (x == (unsigned)cx) ? amp : 0;                                                            // a single column
            if ((long)b == zero_bunch) v = 0;
            d[(b * nx + x) * nx + y] = (float)v;
        }
    }
    ps.updateXProjection();
}

struct C18 : Scenario {
    const char* id() const override { return "C18"; }
    long default_runs(const std::string& tier) const override { return tier == "quick" ? 2000 : 200000; }
    const char* rule() const override {
        return "one evaluation = one operation of a seeded history (Load(i)/Wake/Pad/CSR(fc), 2-12 ops) compared bit for bit with a fresh object; "
               "configurations: nx 8-64, 1-3 bunches, bucket lists with/without bucket 0, spacing >= nx (or 0 for the spectrum-only field), transform "
               "length power of two / composite / prime, random complex impedance with optional zero tail, full or spectrum-only field; "
               "distinct_nontrivial counts distinct (op-sequence shape x field kind x bucket-0-empty x length class) keys of histories that "
               "contain at least one operation following a different operation or a different profile";
    }
    const char* measure() const override { return "distinct (op-shape, field kind, bucket-0 empty, transform-length class) keys"; }
    std::vector<std::string> assumptions() const override {
        return {"both objects live in one process and obtain the same FFTW plan (stub planner: FFTW_ESTIMATE; real planner: in-memory wisdom of the first plan)",
                "FFTW execution is real; a c2r transform that scribbled over its input beyond what this FFTW build does is not simulated"};
    }

    Plan generate(uint64_t seed, long, const std::string&) const override {
        Rng r(seed);
        Plan p;
        unsigned nx = (unsigned)r.range(8, 64);
        unsigned nb = (unsigned)r.range(1, 3);
        bool full = r.chance(0.7);
        unsigned nbk = nb + (unsigned)r.range(0, 2);
        // choose nb distinct bucket numbers out of nbk, listed in descending order like main() does
        std::vector<long> all; for (unsigned i = 0; i < nbk; i++) all.push_back(i);
        std::vector<long> chosen;
        for (unsigned i = 0; i < nb; i++) { size_t k = (size_t)r.range(0, (long)all.size() - 1); chosen.push_back(all[k]); all.erase(all.begin() + (long)k); }
        std::sort(chosen.rbegin(), chosen.rend());
        if (r.chance(0.2)) std::reverse(chosen.begin(), chosen.end());
        unsigned spacing = (!full && r.chance(0.4)) ? 0 : nx + (unsigned)r.range(0, nx);
        size_t need = (size_t)*std::max_element(chosen.begin(), chosen.end()) * spacing + nx;
        size_t nmax;
        int lc = (int)r.range(0, 2);
        if (lc == 0) { nmax = 1; while (nmax < need * (size_t)r.range(1, 2)) nmax *= 2; }
        else if (lc == 1) { nmax = need + (size_t)r.range(0, (long)need); if (nmax % 2) nmax++; }
        else { nmax = need + (size_t)r.range(0, (long)need / 2); auto isprime = [](size_t v) { if (v < 2) return false; for (size_t d = 2; d * d <= v; d++) if (v % d == 0) return false; return true; }; while (!isprime(nmax)) nmax++; }
        if (nmax < 4) nmax = 4;
        p.seti("nx", nx); p.seti("nb", nb); p.setlist("buckets", chosen); p.seti("spacing", spacing); p.seti("nmax", (long)nmax);
        p.seti("full", full); p.setu("zseed", r.u64()); p.seti("ztail", r.chance(0.3) ? r.range(1, (long)nmax / 3 + 1) : 0);
        p.setd("zscale", r.chance(0.5) ? 1.0 : 1000.0);
        p.seti("zupper", r.pick(std::vector<long>{0, 1, 1, 2}));
        p.setu("dseed", r.u64());
        p.seti("planner", (r.chance(0.1) && nmax <= 256) ? 1 : 0);
        // buggify (legal FFTW behaviour): the c2r transform destroys its input
        p.seti("scribble", r.chance(0.4) ? r.range(1, 2) : 0);
        long nops = r.range(2, 12);
        std::string ops = "L0";
        long nextload = 1;
        for (long i = 0; i < nops; i++) {
            double u = r.unit();
            if (u < 0.2) { ops += ",L" + std::to_string(r.chance(0.3) ? r.range(0, nextload - 1) : nextload++); }
            else if (u < 0.3) { ops += ",S" + std::to_string(r.range(0, (long)nb - 1)) + "." + std::to_string(r.range(0, 5)); }   // profile of ONE bunch replaced (setProjection(0,b,...)), the others untouched
            else if (u < 0.55) ops += full ? ",W" : ",C0";
            else if (u < 0.7) ops += ",P";
            else ops += r.pick(std::vector<std::string>{",C0", ",C1", ",C2", ",C3", ",C3", ",C2"});
        }
        p.set("ops", ops);
        return p;
    }

    Outcome run(const Plan& plan, RunCtx& rc) const override {
        Outcome o;
        FieldCfg f;
        f.nx = (unsigned)plan.geti("nx"); f.nb = (unsigned)plan.geti("nb"); f.spacing = (unsigned)plan.geti("spacing");
        f.nmax = (size_t)plan.geti("nmax"); f.full = plan.geti("full") != 0; f.zseed = plan.getu("zseed"); f.ztail = plan.geti("ztail");
        f.zscale = plan.getd("zscale", 1); f.zupper = (int)plan.geti("zupper", 0);
        for (long b : plan.getlist("buckets")) f.buckets.push_back((uint32_t)b);
        if (f.buckets.size() != f.nb) { o.set_infra("bad plan: buckets"); return o; }
        uint32_t maxb = 0; bool has0 = false;
        for (auto b : f.buckets) { maxb = std::max(maxb, b); has0 |= (b == 0); }
        if ((size_t)maxb * f.spacing + f.nx > f.nmax) { o.discard("transform shorter than the bunch train (outside the property's domain)"); return o; }
        api_begin(rc.workdir, 0, (int)plan.geti("planner"), (int)plan.geti("scribble", 0));
        uint64_t dseed = plan.getu("dseed");
        std::vector<float> shares(f.nb, 1.0f / f.nb);
        if (f.nb == 3) shares = {0.5f, 0.25f, 0.25f};
        auto ps = make_ps(f.nx, f.nb, -6, 6, -6, 6, shares);
        auto z = make_z(f);
        auto field = make_field(f, ps, z);
        std::string shape, prevop;
        bool mixed = false;
        long cur = -1;
        auto ops = split(plan.get("ops"), ',');
        for (size_t k = 0; k < ops.size(); k++) {
            const std::string& op = ops[k];
            if (op.empty()) continue;
            shape += op[0];
            if (op[0] == 'L') { cur = atol(op.c_str() + 1); load_data(*ps, f.nx, f.nb, dseed, cur); prevop = op; continue; }
            if (op[0] == 'S') {
                unsigned b = (unsigned)atol(op.c_str() + 1) % f.nb; long which = atol(op.c_str() + op.find('.') + 1);
                Rng pr(Rng::mix(dseed, 7000 + (uint64_t)which));
                boost::multi_array<projection_t, 1> prof(boost::extents[f.nx]);
                int kind = (int)pr.range(0, 2);
                double c = pr.uniform(0.2, 0.8) * f.nx, w = pr.uniform(0.05, 0.3) * f.nx, amp = pr.uniform(0.1, 2);
                for (unsigned x = 0; x < f.nx; x++) prof[x] = (projection_t)(kind == 0 ? amp * std::exp(-0.5 * std::pow((x - c) / w, 2)) : kind == 1 ? (std::fabs(x - c) < w ? amp : 0) : 0.0);   // kind 2: an empty bunch
                ps->setProjection(0, b, prof);
                o.probe("reach.single_bunch_profile_replaced");
                prevop = op; continue;
            }
            if (op[0] == 'W' && !f.full) continue;
            if (!prevop.empty() && prevop[0] != op[0]) mixed = true;
            // ---- operation on the object with history
            // cut-off frequencies: none, far above the frequency axis, and two inside it (so that the shielding factor
            // 1-exp(-(f/fc)^2) saturates to 1 at different bins)
            const float fmax_hz = 2.99792458e8f * (1.0f / ps->getDelta(0));
            float fc = op == "C1" ? 1e11f : op == "C2" ? 0.25f * fmax_hz : op == "C3" ? 0.03f * fmax_hz : 0.0f;
            if (op[0] == 'W') field->wakePotential();
            else if (op[0] == 'P') field->padBunchProfiles();
            else field->updateCSR(fc);
            // ---- same single operation on a fresh object holding the same profile
            auto ps2 = std::make_shared<PhaseSpace>(*ps);
            // (the copy carries the data; the profiles are handed over explicitly so that the fresh object sees the current profile
            //  also when it was set per bunch and is not the projection of the data)
            for (unsigned b = 0; b < f.nb; b++) { boost::multi_array<projection_t, 1> pb(ps->getProjection(0)[b]); ps2->setProjection(0, b, pb); }
            auto fresh = make_field(f, ps2, z);
            if (op[0] == 'W') fresh->wakePotential();
            else if (op[0] == 'P') fresh->padBunchProfiles();
            else fresh->updateCSR(fc);
            o.checks++;
            size_t where = 0;
            std::string at = "after history [" + join(std::vector<std::string>(ops.begin(), ops.begin() + (long)k + 1), ",") + "]";
            auto diffmsg = [&](const char* what, const float* a, const float* b, size_t n) {
                if (!same_bits(a, b, n, &where)) {
                    o.hints["upto"] = std::to_string(k + 1);
                    o.fail(std::string("C18.") + what, at + ": " + what + "[" + std::to_string(where) + "] = " + fmt_g(a[where], 9) + " but a fresh object gives " + fmt_g(b[where], 9));
                }
            };
            if (op[0] == 'W') {
                diffmsg("wake_potential", field->getWakePotentials().data(), fresh->getWakePotentials().data(), (size_t)f.nb * f.nx);
                diffmsg("padded_wake", field->getPaddedWakePotential(), fresh->getPaddedWakePotential(), f.nmax);
                diffmsg("padded_profile", field->getPaddedBunchProfiles(), fresh->getPaddedBunchProfiles(), f.nmax);
            } else if (op[0] == 'P') {
                diffmsg("padded_profile", field->getPaddedBunchProfiles(), fresh->getPaddedBunchProfiles(), f.nmax);
            } else {
                diffmsg("csr_spectrum", field->getCSRSpectrum(), fresh->getCSRSpectrum(), (size_t)f.nb * f.nmax);
                diffmsg("csr_power", field->getCSRPower(), fresh->getCSRPower(), f.nb);
            }
            prevop = op;
        }
        field.reset();
        api_end();
        auto isprime = [](size_t v) { for (size_t d = 2; d * d <= v; d++) if (v % d == 0) return false; return v > 1; };
        std::string lc = (f.nmax & (f.nmax - 1)) == 0 ? "pow2" : isprime(f.nmax) ? "prime" : "composite";
        if (!has0) o.probe("reach.bucket0_empty");
        if (lc == "prime") o.probe("reach.prime_length");
        if (f.ztail > 0) o.probe("reach.impedance_zero_tail");
        if (f.zupper > 0) o.probe(f.zupper == 1 ? "reach.impedance_nyquist_bin" : "reach.impedance_upper_half");
        if (f.spacing == 0) o.probe("reach.zero_spacing");
        if (plan.geti("planner")) o.probe("reach.planner_real");
        if (simrt::state().scribbles > 0) o.fault("fftw_c2r_input_destroyed", simrt::state().scribbles);
        o.nontrivial = mixed;
        o.shape = shape + "|" + (f.full ? "full" : "min") + "|" + (has0 ? "b0" : "nob0") + "|" + lc;
        o.mixfp(shape); o.mixfp((uint64_t)o.fails.size());
        o.sample = "nx=" + std::to_string(f.nx) + " nb=" + std::to_string(f.nb) + " buckets=" + plan.get("buckets") + " spacing=" + std::to_string(f.spacing) +
                   " nmax=" + std::to_string(f.nmax) + (f.full ? " full" : " spectrum-only") + " ztail=" + std::to_string(f.ztail) + " ops=" + plan.get("ops");
        return o;
    }

    std::vector<Plan> shrink_candidates(const Plan& p, const Outcome& last) const override {
        std::vector<Plan> out;
        auto ops = split(p.get("ops"), ',');
        // cut the history after the first failing operation
        if (last.hints.count("upto")) {
            size_t upto = (size_t)atol(last.hints.at("upto").c_str());
            if (upto < ops.size()) { Plan q = p; q.set("ops", join(std::vector<std::string>(ops.begin(), ops.begin() + (long)upto), ",")); out.push_back(q); }
        }
        // drop one operation at a time (never the initial load)
        for (size_t i = 1; i < ops.size(); i++) {
            std::vector<std::string> v = ops; v.erase(v.begin() + (long)i);
            Plan q = p; q.set("ops", join(v, ",")); out.push_back(q);
        }
        if (p.geti("ztail") > 0) { Plan q = p; q.seti("ztail", 0); out.push_back(q); }
        if (p.geti("zupper", 0) > 0) { Plan q = p; q.seti("zupper", p.geti("zupper") - 1); out.push_back(q); }
        if (p.geti("planner")) { Plan q = p; q.seti("planner", 0); out.push_back(q); }
        if (p.geti("scribble", 0)) { Plan q = p; q.seti("scribble", 0); out.push_back(q); }
        if (p.geti("nb") > 1) {
            auto b = p.getlist("buckets");
            Plan q = p; q.seti("nb", p.geti("nb") - 1); b.pop_back(); q.setlist("buckets", b); out.push_back(q);
        }
        return out;
    }
};

ScenarioRegistrar reg(new C18());

} // namespace
} // namespace sim
