// C13 (the saved .cfg reproduces the run) and C20 (command line > config file > default, aliases, rejection).
// Both are "thin" simulation targets: what the simulator contributes is the file/relaunch layer (a .cfg written by
// one process life and consumed by the next, chains of generations, a config layer with faults); the rest is seeded
// generation of option placements compared with a small reference model.
#include "api.hpp"
#include "common.hpp"
#include "IO/ProgramOptions.hpp"
#include <iostream>
#include <sstream>
#include <unistd.h>
#include <sys/stat.h>

namespace sim {
namespace {

using vfps::ProgramOptions;

enum class T { f32, f64, u32, i32, i64, boolean, str, vec };
struct Opt {
    const char* name; T type; bool cli;              // cli: also accepted on the command line
    std::function<std::string(const ProgramOptions&)> get;
    const char* alias_of;                            // legacy alias (file only) of this canonical name
    bool ignore_only;
};

static std::string cf(float v) { char b[48]; snprintf(b, sizeof b, "%.9g", (double)v); return b; }
static std::string cd(double v) { char b[48]; snprintf(b, sizeof b, "%.17g", v); return b; }

static const std::vector<Opt>& table() {
    static std::vector<Opt> t = {
        {"alpha0", T::f32, true, [](const ProgramOptions& o) { return cf(o.getAlpha0()); }, nullptr, false},
        {"alpha1", T::f32, true, [](const ProgramOptions& o) { return cf(o.getAlpha1()); }, nullptr, false},
        {"alpha2", T::f32, true, [](const ProgramOptions& o) { return cf(o.getAlpha2()); }, nullptr, false},
        {"SynchrotronFrequency", T::f32, true, [](const ProgramOptions& o) { return cf(o.getSyncFreq()); }, nullptr, false},
        {"RevolutionFrequency", T::f32, true, [](const ProgramOptions& o) { return cf(o.getRevolutionFrequency()); }, nullptr, false},
        {"DampingTime", T::f64, true, [](const ProgramOptions& o) { return cd(o.getDampingTime()); }, nullptr, false},
        {"HarmonicNumber", T::f32, true, [](const ProgramOptions& o) { return cf(o.getHarmonicNumber()); }, nullptr, false},
        {"InitialDistFile", T::str, true, [](const ProgramOptions& o) { return o.getStartDistFile(); }, nullptr, false},
        {"InitialDistStep", T::i64, true, [](const ProgramOptions& o) { return std::to_string(o.getStartDistStep()); }, nullptr, false},
        {"InitialDistZoom", T::f64, true, [](const ProgramOptions& o) { return cd(o.getStartDistZoom()); }, nullptr, false},
        {"BunchCurrent", T::vec, true, [](const ProgramOptions& o) { std::string s; for (auto v : o.getBunchCurrents()) s += cf(v) + " "; return s; }, nullptr, false},
        {"BendingRadius", T::f64, true, [](const ProgramOptions& o) { return cd(o.getBendingRadius()); }, nullptr, false},
        {"BeamEnergy", T::f64, true, [](const ProgramOptions& o) { return cd(o.getBeamEnergy()); }, nullptr, false},
        {"BeamEnergySpread", T::f64, true, [](const ProgramOptions& o) { return cd(o.getEnergySpread()); }, nullptr, false},
        {"Impedance", T::str, true, [](const ProgramOptions& o) { return o.getImpedanceFile(); }, nullptr, false},
        {"VacuumGap", T::f64, true, [](const ProgramOptions& o) { return cd(o.getVacuumChamberGap()); }, nullptr, false},
        {"UseCSR", T::boolean, true, [](const ProgramOptions& o) { return std::to_string(o.getUseCSR()); }, nullptr, false},
        {"CollimatorRadius", T::f64, true, [](const ProgramOptions& o) { return cd(o.getCollimatorRadius()); }, nullptr, false},
        {"WallConductivity", T::f64, true, [](const ProgramOptions& o) { return cd(o.getWallConductivity()); }, nullptr, false},
        {"WallSusceptibility", T::f64, true, [](const ProgramOptions& o) { return cd(o.getWallSusceptibility()); }, nullptr, false},
        {"CutoffFreq", T::f32, true, [](const ProgramOptions& o) { return cf(o.getCutoffFrequency()); }, nullptr, false},
        {"AcceleratingVoltage", T::f64, true, [](const ProgramOptions& o) { return cd(o.getRFVoltage()); }, nullptr, false},
        {"LinearRF", T::boolean, true, [](const ProgramOptions& o) { return std::to_string(o.getLinearRF()); }, nullptr, false},
        {"RFAmplitudeSpread", T::f64, true, [](const ProgramOptions& o) { return cd(o.getRFAmplitudeSpread()); }, nullptr, false},
        {"RFPhaseSpread", T::f64, true, [](const ProgramOptions& o) { return cd(o.getRFPhaseSpread()); }, nullptr, false},
        {"RFPhaseModAmplitude", T::f64, true, [](const ProgramOptions& o) { return cd(o.getRFPhaseModAmplitude()); }, nullptr, false},
        {"RFPhaseModFrequency", T::f64, true, [](const ProgramOptions& o) { return cd(o.getRFPhaseModFrequency()); }, nullptr, false},
        {"cldev", T::i32, true, [](const ProgramOptions& o) { return std::to_string(o.getCLDevice()); }, nullptr, false},
        {"output", T::str, true, [](const ProgramOptions& o) { return o.getOutFile(); }, nullptr, false},
        {"outstep", T::u32, true, [](const ProgramOptions& o) { return std::to_string(o.getOutSteps()); }, nullptr, false},
        {"SavePhaseSpace", T::u32, true, [](const ProgramOptions& o) { return std::to_string(o.getSavePhaseSpace()); }, nullptr, false},
        {"tracking", T::str, true, [](const ProgramOptions& o) { return o.getParticleTracking(); }, nullptr, false},
        {"verbose", T::boolean, true, [](const ProgramOptions& o) { return std::to_string(o.getVerbosity()); }, nullptr, false},
        {"StepsPerTs", T::u32, true, [](const ProgramOptions& o) { return std::to_string(o.getStepsPerTsync()); }, nullptr, false},
        {"StepsPerRevolution", T::f64, true, [](const ProgramOptions& o) { return cd(o.getStepsPerTrev()); }, nullptr, false},
        {"padding", T::f64, true, [](const ProgramOptions& o) { return cd(o.getPadding()); }, nullptr, false},
        {"RoundPadding", T::boolean, true, [](const ProgramOptions& o) { return std::to_string(o.getRoundPadding()); }, nullptr, false},
        {"PhaseSpaceSize", T::f32, true, [](const ProgramOptions& o) { return cf(o.getPhaseSpaceSize()); }, nullptr, false},
        {"PhaseSpaceShiftX", T::f32, true, [](const ProgramOptions& o) { return cf(o.getPSShiftX()); }, nullptr, false},
        {"PhaseSpaceShiftY", T::f32, true, [](const ProgramOptions& o) { return cf(o.getPSShiftY()); }, nullptr, false},
        {"RenormalizeCharge", T::i32, true, [](const ProgramOptions& o) { return std::to_string(o.getRenormalizeCharge()); }, nullptr, false},
        {"FPType", T::u32, true, [](const ProgramOptions& o) { return std::to_string(o.getFPType()); }, nullptr, false},
        {"FPTrack", T::u32, true, [](const ProgramOptions& o) { return std::to_string(o.getFPTrack()); }, nullptr, false},
        {"GridSize", T::u32, true, [](const ProgramOptions& o) { return std::to_string(o.getGridSize()); }, nullptr, false},
        {"rotations", T::f64, true, [](const ProgramOptions& o) { return cd(o.getNRotations()); }, nullptr, false},
        {"derivation", T::u32, true, [](const ProgramOptions& o) { return std::to_string(o.getDerivationType()); }, nullptr, false},
        {"InterpolationPoints", T::u32, true, [](const ProgramOptions& o) { return std::to_string(o.getInterpolationPoints()); }, nullptr, false},
        {"InterpolateClamped", T::boolean, true, [](const ProgramOptions& o) { return std::to_string(o.getInterpolationClamped()); }, nullptr, false},
        // legacy aliases: config file only
        {"RFVoltage", T::f64, false, nullptr, "AcceleratingVoltage", false},
        {"SyncFreq", T::f32, false, nullptr, "SynchrotronFrequency", false},
        {"steps", T::u32, false, nullptr, "StepsPerTs", false},
        // accepted for compatibility, ignored: config file only
        {"HaissinskiIterations", T::u32, false, nullptr, nullptr, true},
        {"InitialDistParam", T::u32, false, nullptr, nullptr, true},
        {"RotationType", T::u32, false, nullptr, nullptr, true},
        {"SaveSourceMap", T::boolean, false, nullptr, nullptr, true},
    };
    return t;
}
static const Opt* find_opt(const std::string& n) { for (auto& o : table()) if (n == o.name) return &o; return nullptr; }

// canonical text of a token interpreted as the option's type (what the getter would print)
static std::string canon(const Opt& o, const std::string& tok) {
    switch (o.type) {
    case T::f32: return cf(strtof(tok.c_str(), nullptr));
    case T::f64: return cd(strtod(tok.c_str(), nullptr));
    case T::u32: return std::to_string((uint32_t)strtoul(tok.c_str(), nullptr, 10));
    case T::i32: return std::to_string((int32_t)strtol(tok.c_str(), nullptr, 10));
    case T::i64: return std::to_string((int64_t)strtoll(tok.c_str(), nullptr, 10));
    case T::boolean: return (tok == "1" || tok == "true" || tok == "on" || tok == "yes") ? "1" : "0";
    case T::str: {
        // documented: /dev/null for a file option states explicitly "no file"
        std::string n = o.name;
        if (tok == "/dev/null" && (n == "InitialDistFile" || n == "output")) return "";
        return tok;
    }
    case T::vec: { std::string s; for (auto& t : split(tok, ' ')) if (!t.empty()) s += cf(strtof(t.c_str(), nullptr)) + " "; return s; }
    }
    return tok;
}

// seeded value token for an option (API mode: any legal value of the type, incl. many digits and extreme exponents)
static std::string gen_token(Rng& r, const Opt& o) {
    auto fl = [&](bool dbl) {
        int k = (int)r.range(0, 5);
        double v;
        if (k == 0) v = (double)r.range(-5, 50);
        else if (k == 1) v = r.uniform(-10, 10);
        else if (k == 2) v = r.loguniform(1e-12, 1e12) * (r.chance(0.3) ? -1 : 1);
        else if (k == 3) v = r.loguniform(1e-30, 1e-20);
        else if (k == 4) v = 0.1 * (double)r.range(1, 9999);
        else v = r.loguniform(1e-4, 1e-2);
        char b[64]; snprintf(b, sizeof b, r.chance(0.5) ? "%.17g" : (dbl ? "%.12g" : "%.8g"), v);
        return std::string(b);
    };
    switch (o.type) {
    case T::f32: return fl(false);
    case T::f64: return fl(true);
    case T::u32: return std::to_string(r.chance(0.5) ? r.range(0, 9) : r.range(0, 4000000));
    case T::i32: return std::to_string(r.range(-5, 2000));
    case T::i64: return std::to_string(r.range(-20, 20));
    case T::boolean: return r.pick(std::vector<std::string>{"true", "false", "1", "0", "on", "off", "yes", "no"});
    case T::str: if (std::string(o.name) == "InitialDistFile" && r.chance(0.3)) return "/dev/null";
                 return r.pick(std::vector<std::string>{"a.dat", "dir/b.txt", "x_y-z.h5", "file with space.txt"});
    case T::vec: { std::string s; long n = r.range(1, 4); for (long i = 0; i < n; i++) { char b[48]; snprintf(b, sizeof b, r.chance(0.5) ? "%.9g" : "%.4g", r.chance(0.2) ? 0.0 : r.loguniform(1e-6, 1e-2)); s += (i ? " " : "") + std::string(b); } return s; }
    }
    return "0";
}

struct Placement { std::string name, token; bool on_cli; char form = 'L'; };   // name may be an alias (file only); form: L long, S short (-N), B bare flag (-v)

// short command-line forms of the options that have one
static const char* short_form(const std::string& n) {
    static const std::map<std::string, const char*> m = {
        {"SynchrotronFrequency", "-f"}, {"RevolutionFrequency", "-F"}, {"DampingTime", "-d"}, {"HarmonicNumber", "-H"}, {"InitialDistFile", "-i"},
        {"BunchCurrent", "-I"}, {"BendingRadius", "-R"}, {"BeamEnergy", "-E"}, {"BeamEnergySpread", "-e"}, {"Impedance", "-Z"}, {"VacuumGap", "-G"},
        {"AcceleratingVoltage", "-V"}, {"output", "-o"}, {"outstep", "-n"}, {"verbose", "-v"}, {"StepsPerTs", "-N"}, {"padding", "-p"},
        {"PhaseSpaceSize", "-P"}, {"GridSize", "-s"}, {"rotations", "-T"}};
    auto i = m.find(n);
    return i == m.end() ? nullptr : i->second;
}

static std::vector<std::string> argv_of(const std::vector<Placement>& pl, const std::string& cfgfile) {
    std::vector<std::string> a;
    for (auto& p : pl) if (p.on_cli) {
        const Opt* o = find_opt(p.name);
        const char* sf = short_form(p.name);
        if (p.form == 'B' && o && o->type == T::boolean && canon(*o, p.token) == "1" && p.name == "verbose") { a.push_back(sf && p.token.size() % 2 ? sf : "--verbose"); continue; }
        a.push_back((p.form == 'S' && sf) ? std::string(sf) : "--" + p.name);
        if (o && o->type == T::vec) { for (auto& t : split(p.token, ' ')) if (!t.empty()) a.push_back(t); }
        else a.push_back(p.token);
    }
    if (!cfgfile.empty()) { a.push_back("--config"); a.push_back(cfgfile); }
    return a;
}
static std::string file_of(const std::vector<Placement>& pl) {
    std::string s;
    for (auto& p : pl) if (!p.on_cli) {
        const Opt* o = find_opt(p.name);
        if (o && o->type == T::vec) { for (auto& t : split(p.token, ' ')) if (!t.empty()) s += p.name + "=" + t + "\n"; }
        else s += p.name + "=" + p.token + "\n";
    }
    return s;
}
// the same option lines in another legal text layout: bit 0 DOS line ends, bit 1 last line without terminator,
// bit 2 blanks around '=', bit 3 comment and blank lines in between
static std::string cfg_layout(const std::string& text, long fmt) {
    if (fmt == 0) return text;
    auto lines = split(text, '\n');
    while (!lines.empty() && lines.back().empty()) lines.pop_back();
    std::string eol = (fmt & 1) ? "\r\n" : "\n", o;
    for (size_t i = 0; i < lines.size(); i++) {
        std::string l = lines[i];
        if (fmt & 4) { size_t e = l.find('='); if (e != std::string::npos) l = l.substr(0, e) + " = " + l.substr(e + 1); }
        if ((fmt & 8) && i % 3 == 1) o += "# a comment line" + eol + eol;
        o += l;
        if (i + 1 < lines.size() || !(fmt & 2)) o += eol;
    }
    return o;
}
static void write_cfg(const std::string& path, const std::string& text, long fmt) { write_file(path, cfg_layout(text, fmt)); }
static void plan_put(Plan& p, const std::vector<Placement>& pl) {
    p.seti("npl", (long)pl.size());
    for (size_t i = 0; i < pl.size(); i++) { p.set("pl" + std::to_string(i), std::string(pl[i].on_cli ? (pl[i].form == 'S' ? "S" : pl[i].form == 'B' ? "B" : "C") : "F") + "|" + pl[i].name + "|" + pl[i].token); }
}
static std::vector<Placement> plan_get(const Plan& p) {
    std::vector<Placement> pl;
    for (long i = 0; i < p.geti("npl"); i++) {
        auto f = split(p.get("pl" + std::to_string(i)), '|');
        if (f.size() >= 3) { Placement q{f[1], f[2], f[0] != "F"}; q.form = f[0] == "S" ? 'S' : f[0] == "B" ? 'B' : 'L'; pl.push_back(q); }
    }
    return pl;
}

// parse in-process; returns false if parse() threw or declined; getters into map
struct Parsed { bool ok = false, declined = false; std::string error; std::map<std::string, std::string> val; std::string saved; };
static Parsed api_parse(const std::vector<std::string>& args, const std::string& save_as) {
    Parsed P;
    std::vector<std::string> store{"inovesa"};
    for (auto& a : args) store.push_back(a);
    std::vector<char*> av;
    for (auto& s : store) av.push_back(const_cast<char*>(s.c_str()));
    std::stringstream sink;
    auto* old = std::cout.rdbuf(sink.rdbuf());
    try {
        ProgramOptions o;
        bool run = o.parse((int)av.size(), av.data());
        P.ok = true; P.declined = !run;
        for (auto& op : table()) if (op.get) P.val[op.name] = op.get(o);
        if (run && !save_as.empty()) { o.save(save_as); P.saved = read_file(save_as); }
    } catch (std::exception& e) { P.error = e.what(); }
    std::cout.rdbuf(old);
    return P;
}

// reference model: command line > config file (aliases act like their current names) > default
static std::map<std::string, std::string> model(const std::vector<Placement>& pl, const std::map<std::string, std::string>& defaults) {
    std::map<std::string, std::string> eff = defaults;
    for (int pass = 0; pass < 2; pass++)          // pass 0: file, pass 1: command line (overrides)
        for (auto& p : pl) {
            if ((pass == 1) != p.on_cli) continue;
            const Opt* o = find_opt(p.name);
            if (!o || o->ignore_only) continue;
            std::string target = o->alias_of ? o->alias_of : o->name;
            const Opt* t = find_opt(target);
            eff[target] = canon(*t, p.token);
        }
    return eff;
}

static std::vector<Placement> gen_placements(Rng& r, bool with_alias, bool allow_both) {
    std::vector<Placement> pl;
    for (auto& o : table()) {
        if (o.alias_of || o.ignore_only) continue;
        if (std::string(o.name) == "output" || std::string(o.name) == "cldev") continue;
        if (!r.chance(0.5)) continue;
        bool cli = r.chance(0.5), file = !cli;
        if (allow_both && r.chance(0.25)) cli = file = true;
        if (cli) { Placement q{o.name, gen_token(r, o), true}; if (short_form(o.name) && r.chance(0.4)) q.form = 'S'; if (std::string(o.name) == "verbose" && r.chance(0.4)) q.form = 'B'; pl.push_back(q); }
        if (file) {
            // legacy spelling in the file for the three aliased options
            std::string nm = o.name;
            if (with_alias && r.chance(0.6)) for (auto& a : table()) if (a.alias_of && nm == a.alias_of) { nm = a.name; break; }
            pl.push_back({nm, gen_token(r, o), false});
        }
    }
    if (r.chance(0.5)) for (auto& o : table()) if (o.ignore_only && r.chance(0.5)) pl.push_back({o.name, gen_token(r, o), false});
    return pl;
}

// a runnable configuration with "difficult" values, expressed as placements (program mode)
static std::vector<Placement> runnable_placements(Rng& r, Cfg& c, bool with_alias) {
    SwarmOpts so; so.max_grid = 20; so.max_rot_steps = 6; so.allow_tracking = false;
    c = swarm_cfg(r, so);
    c.alpha0 = r.uniform(2e-3, 8e-3); c.E0 = r.uniform(1.0e9, 1.6e9); c.sE = r.uniform(3e-4, 6e-4); c.VRF = r.uniform(0.8e6, 1.5e6);
    c.zoom = r.uniform(0.8, 1.2); c.fc = r.uniform(1e10, 4e10);
    if (r.chance(0.3)) c.fs = r.uniform(3e4, 6e4);
    std::vector<Placement> pl;
    auto args = c.args();
    for (size_t i = 0; i + 1 < args.size(); i += 2) {
        std::string nm = args[i].substr(2);
        if (nm == "output") continue;
        std::string tok = args[i + 1];
        if (nm == "BunchCurrent") { size_t j = i + 2; while (j < args.size() && !starts_with(args[j], "--")) { tok += " " + args[j]; j++; } i = j - 2; }
        bool cli = r.chance(0.5);
        if (!cli && with_alias && r.chance(0.6)) for (auto& a : table()) if (a.alias_of && nm == a.alias_of) { nm = a.name; break; }
        Placement q{nm, tok, cli};
        if (cli && short_form(nm) && r.chance(0.4)) q.form = 'S';
        pl.push_back(q);
    }
    return pl;
}

static std::string strip_cfg(const std::string& s) {
    std::string o;
    for (auto& l : split(s, '\n')) { if (starts_with(l, "output=") || starts_with(l, "#config=") || starts_with(l, "config=")) continue; o += l + "\n"; }
    return o;
}

static std::map<std::string, std::string>& defaults() {
    static std::map<std::string, std::string> d = api_parse({"--config", "/dev/null"}, "").val;
    return d;
}

// =============================================================================================== C13
static bool last_has_inplace_only(const Plan&) { return false; }
struct C13 : Scenario {
    const char* id() const override { return "C13"; }
    long default_runs(const std::string& tier) const override { return tier == "quick" ? 200 : 20000; }
    const char* rule() const override {
        return "one evaluation = one generation step of a chain g0 -> saved .cfg -> g1 -> saved .cfg -> g2: (api) every option getter after "
               "parse(--config saved.cfg) equals the getter of the originating invocation and the saved file is a fixed point; options are placed "
               "with probability 1/2 each on the command line or in a parent config file (legacy aliases in the file), values with 8-17 "
               "significant digits and extreme exponents, 1-4 bunch currents, alpha0 or synchrotron frequency; (prog) the same for real "
               "launches: physics datasets and /Info/Parameters of g1 equal g0's, also when g0 is ended by SIGINT right after the .cfg is written; "
               "distinct_nontrivial counts distinct (mode, #options set, alias used, multi-current, fs-or-alpha0, interrupted) keys";
    }
    const char* measure() const override { return "distinct (mode, option-count bucket, alias, multi-current, fs/alpha0, interrupted) keys"; }
    std::vector<std::string> assumptions() const override {
        return {"run_anyway is on the writer's explicit skip list and cannot influence a run that has an output file; config and output differ by construction",
                "alpha0 is compared only when no synchrotron frequency is in effect (otherwise it is not the value in use)",
                "ForceOpenGLVersion and gui have no observable effect in this build (no OpenGL) and are not compared"};
    }
    Plan generate(uint64_t seed, long, const std::string&) const override {
        Rng r(seed);
        Plan p;
        bool prog = r.chance(0.12);
        p.set("mode", prog ? "prog" : "api");
        p.setu("entropy", r.u64());
        p.seti("filefmt", r.chance(0.4) ? r.range(1, 15) : 0);     // text layout of the parent config file
        if (prog) {
            Cfg c; auto pl = runnable_placements(r, c, true);
            plan_put(p, pl);
            p.seti("sigint", r.chance(0.4) ? (r.chance(0.4) ? 1 : r.range(2, 1000000)) : 0);   // 0 none, 1 right after the .cfg is saved, >=2 a seeded set-up moment
            p.seti("inplace", r.chance(0.5));
            p.seti("stalecfg", r.chance(0.3));
        } else plan_put(p, gen_placements(r, true, r.chance(0.5)));   // half of the plans also give options in both places
        return p;
    }

    Outcome run(const Plan& plan, RunCtx& rc) const override {
        Outcome o;
        auto pl = plan_get(plan);
        bool alias = false, multi = false, fsset = false;
        for (auto& p : pl) { const Opt* op = find_opt(p.name); if (op && op->alias_of) alias = true; if (p.name == "BunchCurrent" && split(p.token, ' ').size() > 1) multi = true; if ((p.name == "SynchrotronFrequency" || p.name == "SyncFreq") && strtod(p.token.c_str(), nullptr) != 0) fsset = true; }
        std::string key = std::string("cls.") + plan.get("mode") + ".n" + std::to_string(pl.size() / 8) + (alias ? ".alias" : "") + (multi ? ".multi" : "") + (fsset ? ".fs" : ".alpha0");
        std::string parent = file_of(pl);
        write_cfg(rc.workdir + "/parent.cfg", parent, plan.geti("filefmt", 0));
        if (plan.get("mode") == "api") {
            api_begin(rc.workdir, plan.getu("entropy"), 0);
            std::string g0cfg = rc.workdir + "/g0.cfg", g1cfg = rc.workdir + "/g1.cfg", g2cfg = rc.workdir + "/g2.cfg";
            auto a0 = argv_of(pl, parent.empty() ? "/dev/null" : rc.workdir + "/parent.cfg");
            Parsed P0 = api_parse(a0, g0cfg);
            if (!P0.ok || P0.declined) { api_end(); o.discard("originating invocation rejected by the parser: " + P0.error); return o; }
            Parsed P1 = api_parse({"--config", g0cfg}, g1cfg);
            o.checks++;
            if (!P1.ok || P1.declined) o.fail("C13.cfg_readable", "the saved .cfg is rejected when passed back with --config: " + P1.error + "\n" + P0.saved.substr(0, 400));
            else {
                bool fs_used = strtod(P0.val["SynchrotronFrequency"].c_str(), nullptr) != 0;
                for (auto& op : table()) {
                    if (!op.get) continue;
                    std::string n = op.name;
                    if (n == "alpha0" && fs_used) continue;
                    o.checks++;
                    if (P0.val[n] != P1.val[n]) o.fail("C13.same_value", "option " + n + ": original invocation has " + P0.val[n] + ", rerun from the saved .cfg has " + P1.val[n]);
                }
                Parsed P2 = api_parse({"--config", g1cfg}, g2cfg);
                o.checks += 2;
                if (strip_cfg(P1.saved) != strip_cfg(P0.saved)) o.fail("C13.fixed_point", "the .cfg saved by the rerun differs from the .cfg it was started from");
                if (!P2.ok || strip_cfg(P2.saved) != strip_cfg(P1.saved)) o.fail("C13.fixed_point", "third generation .cfg differs from the second");
                else for (auto& op : table()) if (op.get && !(std::string(op.name) == "alpha0" && fs_used) && P2.val[op.name] != P0.val[op.name]) o.fail("C13.same_value", "option " + std::string(op.name) + ": third generation has " + P2.val[op.name] + ", original " + P0.val[op.name]);
            }
            // a later generation that is started from the saved file WITH command-line overrides and saves next to the same
            // output again (the file it was read from is rewritten): the rewritten file must describe that invocation
            if (P1.ok && !P1.declined) {
                Rng rr(plan.getu("entropy") ^ 0x13c13ull);
                std::vector<std::string> a = {"--config", g0cfg};
                std::vector<const Opt*> over;
                for (auto& op : table()) if (op.get && op.cli && !op.alias_of && !op.ignore_only && op.type != T::str && std::string(op.name) != "cldev" && rr.chance(0.12)) over.push_back(&op);
                for (auto* op : over) { a.push_back(std::string("--") + op->name); for (auto& t : split(gen_token(rr, *op), ' ')) if (!t.empty()) a.push_back(t); }
                Parsed Pb = api_parse(a, g0cfg);                       // saves onto the file it was started from
                if (Pb.ok && !Pb.declined && !over.empty()) {
                    Parsed Pc = api_parse({"--config", g0cfg}, g2cfg);
                    o.checks++; o.probe("reach.regenerated_in_place_with_overrides");
                    bool fs_b = strtod(Pb.val["SynchrotronFrequency"].c_str(), nullptr) != 0;
                    if (!Pc.ok || Pc.declined) o.fail("C13.cfg_readable", "the .cfg rewritten by a generation with command-line overrides is rejected: " + Pc.error);
                    else for (auto& op : table()) {
                        if (!op.get || (std::string(op.name) == "alpha0" && fs_b)) continue;
                        o.checks++;
                        if (Pb.val[op.name] != Pc.val[op.name]) { o.fail("C13.same_value", "option " + std::string(op.name) + ": a run started from its own saved .cfg with " + std::string("--") + over[0]->name + " ... on the command line has " + Pb.val[op.name] + ", rerun from the .cfg it saved has " + Pc.val[op.name]); break; }
                    }
                }
            }
            api_end();
            o.mixfp(hash_str(strip_cfg(P0.saved)));   // (the #config= line holds the run directory)
            o.probe(key);
            o.nontrivial = pl.size() > 3;
            o.sample = "api placements=" + std::to_string(pl.size()) + " parent_cfg_lines=" + std::to_string(split(parent, '\n').size() - 1);
            return o;
        }
        // ---- program mode: real launches
        uint64_t entropy = plan.getu("entropy");
        auto launch = [&](const std::vector<std::string>& args, const std::string& tag, const std::vector<long>& sig, LaunchResult& r) {
            Launch l; l.args = args; l.dir = rc.workdir; l.tag = tag; l.rt.entropy_seed = entropy; l.rt.planner_mode = 0; l.rt.sigint_points = sig; l.timeout_s = 20;
            r = run_launch(l); o.launches++; o.simsteps += r.sumi("steps_done");
            return r.exited && r.code == 0;
        };
        auto a0 = argv_of(pl, parent.empty() ? "/dev/null" : "parent.cfg");
        a0.push_back("--output"); a0.push_back("g0.h5");
        LaunchResult r0, r1, r0full;
        bool sigint = plan.geti("sigint") != 0;
        std::vector<long> sig;
        if (sigint) {
            // index of the "cfg_saved" hook point from an uninterrupted dry launch
            auto ad = argv_of(pl, parent.empty() ? "/dev/null" : "parent.cfg"); ad.push_back("--output"); ad.push_back("dry.h5");
            Launch l; l.args = ad; l.dir = rc.workdir; l.tag = "dry"; l.rt.entropy_seed = entropy; l.rt.text_log = true; l.timeout_s = 20;
            LaunchResult rd = run_launch(l); o.launches++;
            long idx = 0, found = -1;
            for (auto& line : split(unesc(rd.sum["text"]), '\n')) { if (!starts_with(line, "P ")) continue; if (line == "P cfg_saved") found = idx; idx++; }
            if (found < 0) { o.set_infra("no cfg_saved point in dry launch: " + rd.describe() + tail(rd.err)); return o; }
            // any moment of the set-up up to "the .cfg has just been saved": whenever an interrupted run leaves results, the .cfg next
            // to them has to describe that run
            long at = plan.geti("sigint") >= 2 ? (plan.geti("sigint") - 2) % (found + 1) : found;
            sig.push_back(at);
            if (at < found) o.probe("reach.sigint_during_setup_before_cfg_saved");
        }
        // a .cfg of an earlier run with other settings may already lie under the same name: it must be replaced
        if (plan.geti("stalecfg", 0)) { write_file(rc.workdir + "/g0.h5.cfg", "GridSize=16\nStepsPerTs=12\nrotations=0.1\nBunchCurrent=0.002\noutput=g0.h5\n"); o.probe("reach.stale_cfg_under_the_same_name"); }
        if (!launch(a0, "g0", sig, r0)) { o.set_infra("g0 failed: " + r0.describe() + " " + tail(r0.err)); return o; }
        if (sigint) { o.fault("sigint_after_cfg_saved"); a0.back() = "g0full.h5"; if (!launch(a0, "g0full", {}, r0full)) { o.set_infra("g0 (uninterrupted twin) failed"); return o; } }
        std::string cfgname = "g0.h5.cfg";
        if (!launch({"--config", cfgname, "--output", "g1.h5"}, "g1", {}, r1)) { o.checks++; o.fail("C13.rerun_works", "rerun from the saved .cfg failed: " + r1.describe() + " " + tail(r1.err) + tail(r1.out, 200)); return o; }
        H5Snap s0 = h5_read(rc.workdir + (sigint ? "/g0full.h5" : "/g0.h5")), s1 = h5_read(rc.workdir + "/g1.h5");
        if (!s0.ok || !s1.ok) { o.set_infra("unreadable results"); return o; }
        o.checks++;
        // not compared: recorded copies of compatibility-only options and legacy spellings (they exist only when a config
        // file that mentions or defaults them was parsed), and alpha0 when a synchrotron frequency overrides it
        std::vector<std::string> skip = {"/Info/Parameters@HaissinskiIterations", "/Info/Parameters@InitialDistParam", "/Info/Parameters@RotationType",
                                         "/Info/Parameters@SaveSourceMap", "/Info/Parameters@steps", "/Info/Parameters@RFVoltage", "/Info/Parameters@SyncFreq"};
        if (s0.attrd("/Info/Parameters@SynchrotronFrequency", 0) != 0) skip.push_back("/Info/Parameters@alpha0");
        auto diff = h5_diff(s0, s1, all_but(skip));
        if (!diff.empty()) o.fail("C13.reproduces_results", "results of the rerun from the saved .cfg differ from the original in " + diff[0] + " (+" + std::to_string(diff.size() - 1) + " more)");
        o.checks++;
        std::string c0 = read_file(rc.workdir + "/g0.h5.cfg"), c1 = read_file(rc.workdir + "/g1.h5.cfg");
        if (strip_cfg(c0) != strip_cfg(c1)) o.fail("C13.fixed_point", "the .cfg saved by the rerun differs from the .cfg it was started from");
        // in-place regeneration: started from g0.h5.cfg with other values on the command line and no --output (the output name
        // comes from the file), so g0.h5 and g0.h5.cfg are both rewritten; the rewritten .cfg must reproduce the rewritten results
        if (plan.geti("inplace", 0) && o.fails.empty()) {
            Rng rr(entropy ^ 0x13c13ull);
            double rot = s0.attrd("/Info/Parameters@rotations", 0.1);
            std::vector<std::string> a = {"--config", "g0.h5.cfg", "--rotations", cd(rot * rr.uniform(0.5, 0.9)), "--InitialDistZoom", cd(std::round(rr.uniform(0.7, 1.3) * 1000) / 1000)};
            if (rr.chance(0.5)) { a.push_back("--BunchCurrent"); a.push_back("0.0011"); }
            LaunchResult rb, rc2;
            if (!launch(a, "g1b", {}, rb)) { o.set_infra("in-place generation failed: " + rb.describe() + " " + tail(rb.err)); return o; }
            if (!launch({"--config", "g0.h5.cfg", "--output", "g2.h5"}, "g2", {}, rc2)) { o.checks++; o.fail("C13.rerun_works", "rerun from the rewritten .cfg failed: " + rc2.describe() + " " + tail(rc2.err)); return o; }
            H5Snap sb = h5_read(rc.workdir + "/g0.h5"), s2 = h5_read(rc.workdir + "/g2.h5");
            if (!sb.ok || !s2.ok) { o.set_infra("unreadable results (in-place generation)"); return o; }
            o.checks++; o.probe("reach.regenerated_in_place_with_overrides");
            auto skip2 = skip; if (sb.attrd("/Info/Parameters@SynchrotronFrequency", 0) != 0) skip2.push_back("/Info/Parameters@alpha0");
            auto diff2 = h5_diff(sb, s2, all_but(skip2));
            if (!diff2.empty()) o.fail("C13.reproduces_results", "a run started from its own saved .cfg with other values on the command line rewrote its results, but the .cfg next to them does not reproduce them: " + diff2[0] + " (+" + std::to_string(diff2.size() - 1) + " more)");
            o.mixfp(rb.evhash()); o.mixfp(s2.digest());
        }
        o.mixfp(r0.evhash()); o.mixfp(r1.evhash()); o.mixfp(s1.digest());
        o.probe(key + (sigint ? ".sigint" : ""));
        o.nontrivial = true;
        o.sample = "prog placements=" + std::to_string(pl.size()) + (sigint ? " g0 interrupted after cfg_saved" : "");
        return o;
    }

    std::vector<Plan> shrink_candidates(const Plan& p, const Outcome&) const override {
        std::vector<Plan> out;
        auto pl = plan_get(p);
        if (p.get("mode") == "api") {
            // halves first, then single removals
            if (pl.size() > 3) for (int h = 0; h < 2; h++) { std::vector<Placement> q(pl.begin() + (h ? (long)pl.size() / 2 : 0), h ? pl.end() : pl.begin() + (long)pl.size() / 2); Plan n = p; for (long i = 0; i < p.geti("npl"); i++) n.erase("pl" + std::to_string(i)); plan_put(n, q); out.push_back(n); }
            for (size_t i = 0; i < pl.size(); i++) { auto q = pl; q.erase(q.begin() + (long)i); Plan n = p; for (long k = 0; k < p.geti("npl"); k++) n.erase("pl" + std::to_string(k)); plan_put(n, q); out.push_back(n); }
        } else {
            if (p.geti("sigint")) { Plan n = p; n.seti("sigint", 0); out.push_back(n); }
            if (p.geti("inplace", 0) && !last_has_inplace_only(p)) { Plan n = p; n.seti("inplace", 0); out.push_back(n); }
            for (size_t i = 0; i < pl.size(); i++) { if (pl[i].on_cli) continue; auto q = pl; q[i].on_cli = true; const Opt* op = find_opt(q[i].name); if (op && op->alias_of) q[i].name = op->alias_of; Plan n = p; for (long k = 0; k < p.geti("npl"); k++) n.erase("pl" + std::to_string(k)); plan_put(n, q); out.push_back(n); }
        }
        return out;
    }
};

// =============================================================================================== C20
struct C20 : Scenario {
    const char* id() const override { return "C20"; }
    long default_runs(const std::string& tier) const override { return tier == "quick" ? 200 : 20000; }
    const char* rule() const override {
        return "one evaluation = one invocation compared with the reference model (effective value = command line, else config file with legacy "
               "aliases acting as their current names, else default; compatibility-only options change nothing): (api) all option getters for "
               "seeded placements incl. options given in both places; (prog) /Info/Parameters of real launches; (fault) config-layer faults "
               "(missing file, directory, unreadable via an injected open error, truncated key, unknown key, malformed value, unknown/malformed "
               "command-line tokens): process ends by itself with a message, failure status where the property demands it, and nothing simulated; "
               "distinct_nontrivial counts distinct (mode, fault kind / #both-places / alias / ignore-only) keys";
    }
    const char* measure() const override { return "distinct (mode, fault kind, both-places bucket, alias, ignore-only) keys"; }
    std::vector<std::string> assumptions() const override {
        return {"defaults are taken from the implementation itself (getters after parsing an empty command line)",
                "an alias and its current name are never placed together in the file (the property does not order them)",
                "a malformed value in the file for a key that is also on the command line is not generated (boost skips such file entries)"};
    }
    Plan generate(uint64_t seed, long, const std::string&) const override {
        Rng r(seed);
        Plan p;
        double u = r.unit();
        std::string mode = u < 0.6 ? "api" : u < 0.75 ? "prog" : "fault";
        p.set("mode", mode);
        p.setu("entropy", r.u64());
        p.seti("filefmt", r.chance(0.4) ? r.range(1, 15) : 0);     // text layout of the config file (DOS line ends, unterminated last line, blanks, comments)
        if (mode == "api") plan_put(p, gen_placements(r, true, true));
        else {
            Cfg c; auto pl = runnable_placements(r, c, true);
            if (mode == "prog") {
                // give some options in both places: the command line must win
                std::vector<Placement> extra;
                for (auto& q : pl) if (q.on_cli && r.chance(0.3)) { const Opt* op = find_opt(q.name); if (!op || op->type == T::str) continue; Placement f{q.name, gen_file_twin(r, *op, q.token), false}; extra.push_back(f); }
                pl.insert(pl.end(), extra.begin(), extra.end());
                for (auto& o : table()) if (o.ignore_only && r.chance(0.4)) pl.push_back({o.name, gen_token(r, o), false});
            } else {
                p.set("fault", r.pick(std::vector<std::string>{"missing", "directory", "unreadable", "truncated_key", "unknown_key", "malformed_value", "malformed_alias", "cli_unknown", "cli_malformed", "empty"}));
                p.seti("farg", r.range(0, 100000));
            }
            plan_put(p, pl);
        }
        return p;
    }
    // another legal value for the same option (so that precedence is observable), runnable
    static std::string gen_file_twin(Rng& r, const Opt& o, const std::string& cli_tok) {
        switch (o.type) {
        case T::u32: case T::i32: case T::i64: return std::to_string(strtol(cli_tok.c_str(), nullptr, 10) + r.range(1, 3));
        case T::boolean: return canon(o, cli_tok) == "1" ? "false" : "true";
        case T::vec: return "0.002";
        default: { double v = strtod(cli_tok.c_str(), nullptr); return cd(v == 0 ? 0.5 : v * 1.25); }
        }
    }

    Outcome run(const Plan& plan, RunCtx& rc) const override {
        Outcome o;
        auto pl = plan_get(plan);
        std::string mode = plan.get("mode");
        std::string parent = file_of(pl);
        write_cfg(rc.workdir + "/parent.cfg", parent, plan.geti("filefmt", 0));
        long both = 0; bool alias = false, ign = false;
        { std::set<std::string> c, f; for (auto& p : pl) { const Opt* op = find_opt(p.name); std::string t = op && op->alias_of ? op->alias_of : p.name; (p.on_cli ? c : f).insert(t); if (op && op->alias_of) alias = true; if (op && op->ignore_only) ign = true; } for (auto& n : c) if (f.count(n)) both++; }
        if (mode == "api") {
            api_begin(rc.workdir, plan.getu("entropy"), 0);
            Parsed P = api_parse(argv_of(pl, rc.workdir + "/parent.cfg"), "");
            if (!P.ok || P.declined) { api_end(); o.discard("placement rejected by the parser: " + P.error); return o; }
            auto eff = model(pl, defaults());
            for (auto& op : table()) {
                if (!op.get) continue;
                o.checks++;
                if (P.val[op.name] != eff[op.name]) {
                    std::string where;
                    for (auto& p : pl) { const Opt* q = find_opt(p.name); std::string t = q && q->alias_of ? q->alias_of : p.name; if (t == op.name) where += std::string(p.on_cli ? " cli:" : " file:") + p.name + "=" + p.token; }
                    o.hints["opt"] = op.name;
                    o.fail("C20.effective_value", "option " + std::string(op.name) + " is " + P.val[op.name] + " but command line > config file > default gives " + eff[op.name] + " (" + where + " )");
                }
            }
            api_end();
            o.probe("cls.api.both" + std::to_string(std::min(both, 3L)) + (alias ? ".alias" : "") + (ign ? ".ignored" : ""));
            o.nontrivial = both > 0 || alias;
            o.mixfp(hash_str(parent));
            o.sample = "api placements=" + std::to_string(pl.size()) + " in_both_places=" + std::to_string(both);
            return o;
        }
        uint64_t entropy = plan.getu("entropy");
        Launch l; l.dir = rc.workdir; l.tag = "run"; l.rt.entropy_seed = entropy; l.timeout_s = 20;
        if (mode == "prog") {
            l.args = argv_of(pl, "parent.cfg"); l.args.push_back("--output"); l.args.push_back("out.h5");
            LaunchResult r = run_launch(l); o.launches++; o.simsteps = r.sumi("steps_done");
            if (!r.exited || r.code != 0) { o.set_infra("launch failed: " + r.describe() + " " + tail(r.err) + tail(r.out, 200)); return o; }
            H5Snap s = h5_read(rc.workdir + "/out.h5");
            if (!s.ok) { o.set_infra("unreadable results"); return o; }
            api_begin(rc.workdir, 0, 0);
            auto eff = model(pl, defaults());
            api_end();
            for (auto& op : table()) {
                if (!op.get || !(op.type == T::f32 || op.type == T::f64 || op.type == T::u32 || op.type == T::i32)) continue;
                auto a = s.attr(std::string("/Info/Parameters@") + op.name);
                if (!a) continue;
                o.checks++;
                std::string got = op.type == T::f32 ? cf((float)a->at(0)) : op.type == T::f64 ? cd(a->at(0)) : std::to_string((long)a->at(0));
                if (got != eff[op.name]) { o.hints["opt"] = op.name; o.fail("C20.effective_value", "recorded parameter " + std::string(op.name) + " = " + got + " but command line > config file > default gives " + eff[op.name]); }
            }
            // the saved .cfg shows the effective value of every option, also of the types /Info/Parameters cannot hold
            {
                std::map<std::string, std::string> seen;
                for (auto& line : split(read_file(rc.workdir + "/out.h5.cfg"), '\n')) {
                    if (line.empty() || line[0] == '#') continue;
                    size_t e = line.find('=');
                    if (e == std::string::npos) continue;
                    std::string k = line.substr(0, e), v = line.substr(e + 1);
                    seen[k] += (seen.count(k) ? " " : "") + v;
                }
                bool fs_used = strtod(eff["SynchrotronFrequency"].c_str(), nullptr) != 0;
                for (auto& op : table()) {
                    if (!op.get || !seen.count(op.name)) continue;
                    std::string n = op.name;
                    if (n == "output" || n == "cldev" || (n == "alpha0" && fs_used)) continue;
                    o.checks++;
                    std::string got = canon(op, seen[n]);
                    if (got != eff[n]) { o.hints["opt"] = n; o.fail("C20.effective_value", "saved configuration has " + n + " = " + got + " but command line > config file > default gives " + eff[n]); }
                }
            }
            o.probe("cls.prog.both" + std::to_string(std::min(both, 3L)) + (alias ? ".alias" : "") + (ign ? ".ignored" : ""));
            o.nontrivial = true;
            o.mixfp(r.evhash()); o.mixfp(s.digest());
            o.sample = "prog placements=" + std::to_string(pl.size()) + " in_both_places=" + std::to_string(both);
            return o;
        }
        // ---- config-layer faults
        std::string fault = plan.get("fault");
        long farg = plan.geti("farg");
        std::string cfg = "parent.cfg";
        bool expect_stop = true, expect_fail_status = false;
        auto argsbase = [&]() { auto a = argv_of(pl, cfg); a.push_back("--output"); a.push_back("out.h5"); return a; };
        if (fault == "missing") {
            // any name: the implicit default name given explicitly, the same name in other directories, no extension, absolute
            const std::vector<std::string> names = {"nothere.cfg", "default.cfg", "./default.cfg", "sub/default.cfg", rc.workdir + "/nodir/default.cfg", "nothere", "other/parent.cfg", "default.cfg.bak"};
            cfg = names[(size_t)farg % names.size()];
            if (cfg == "sub/default.cfg") mkdir((rc.workdir + "/sub").c_str(), 0777);
            o.probe("reach.missing_name." + std::string(cfg.find("default.cfg") != std::string::npos ? "default_cfg" : "other"));
        }
        else if (fault == "directory") { cfg = "adir"; mkdir((rc.workdir + "/adir").c_str(), 0777); }
        else if (fault == "unreadable") { l.rt.fault_path = "parent.cfg"; l.rt.fault_kind = 1; l.rt.fault_nth = -1; l.rt.fault_errno = 13; }
        else if (fault == "empty") {
            // everything moves to the command line (so that the run stays small); the config file itself is empty
            write_file(rc.workdir + "/parent.cfg", ""); expect_stop = false;
            std::vector<Placement> q;
            for (auto p : pl) { const Opt* op = find_opt(p.name); if (!op || op->ignore_only) continue; if (op->alias_of) p.name = op->alias_of; bool dup = false; for (auto& e : q) if (e.name == p.name) dup = true; if (dup) continue; p.on_cli = true; q.push_back(p); }
            pl = q;
        }
        else if (fault == "truncated_key") { write_cfg(rc.workdir + "/parent.cfg", parent + "GridSi", plan.geti("filefmt", 0)); expect_fail_status = true; }
        else if (fault == "unknown_key") { write_cfg(rc.workdir + "/parent.cfg", parent + (farg % 4 == 3 ? std::string("config=other.cfg\n") : "NoSuchOption" + std::to_string(farg % 10) + "=1\n"), plan.geti("filefmt", 0)); expect_fail_status = true; }
        else if (fault == "malformed_value" || fault == "malformed_alias") {
            // a key that is not on the command line and not already in the file
            std::vector<const Opt*> cand;
            for (auto& op : table()) {
                if (op.type == T::str || op.ignore_only) continue;
                if ((fault == "malformed_alias") != (op.alias_of != nullptr)) continue;
                std::string target = op.alias_of ? op.alias_of : op.name;
                bool used = false;
                for (auto& p : pl) { const Opt* q = find_opt(p.name); std::string t = q && q->alias_of ? q->alias_of : p.name; if (t == target) used = true; }
                if (!used) cand.push_back(&op);
            }
            if (cand.empty()) { o.discard("no free key for a malformed value"); return o; }
            const Opt* op = cand[(size_t)farg % cand.size()];
            std::string bad = op->type == T::boolean ? "maybe" : (farg % 2 ? "12x" : "abc");
            write_cfg(rc.workdir + "/parent.cfg", parent + op->name + "=" + bad + "\n", plan.geti("filefmt", 0));
            expect_fail_status = true;
        }
        l.args = argsbase();
        if (fault == "cli_unknown") { l.args.push_back("--NoSuchOption"); l.args.push_back("1"); expect_fail_status = true; }
        if (fault == "cli_malformed") { l.args.push_back(farg % 2 ? "--GridSize" : "--padding"); l.args.push_back(farg % 3 ? "abc" : "1.5.2"); expect_fail_status = true;
            // remove an earlier occurrence of the same option on the command line
            std::string nm = l.args[l.args.size() - 2];
            for (size_t i = 0; i + 2 < l.args.size(); i++) if (l.args[i] == nm && i + 2 != l.args.size()) { l.args.erase(l.args.begin() + (long)i, l.args.begin() + (long)i + 2); break; } }
        LaunchResult r = run_launch(l); o.launches++; o.checks++;
        o.fault("config_" + fault);
        if (r.sumi("faults_fired") > 0) o.fault("open_error_injected", r.sumi("faults_fired"));
        std::string what = "config-layer fault '" + fault + "'";
        bool started = log_has(r.out, "Starting the simulation");
        bool results = access((rc.workdir + "/out.h5").c_str(), F_OK) == 0;
        if (!r.exited) { o.fail("C20.rejection_clean_exit", what + ": process died: " + r.describe() + " " + tail(r.err)); }
        else if (expect_stop) {
            if (started || results || r.sumi("steps_done") > 0) o.fail("C20.nothing_simulated", what + ": the program went on to simulate");
            std::string msgs = r.out + r.err;
            if (!(log_has(msgs, "rror") || log_has(msgs, "not exist") || log_has(msgs, "Cannot open") || log_has(msgs, "unrecognised") || log_has(msgs, "invalid")))
                o.fail("C20.rejection_message", what + ": stopped without a message; output: " + tail(msgs));
            if (expect_fail_status && r.code == 0) o.fail("C20.failure_status", what + ": exit status 0 (message: " + tail(msgs, 160) + ")");
        } else {
            if (r.code != 0 || !started) o.fail("C20.empty_config_ok", what + ": an empty config file must behave like no config file: " + r.describe() + " " + tail(r.err));
        }
        o.probe("cls.fault." + fault);
        o.nontrivial = true;
        o.mixfp(r.evhash()); o.mixfp((uint64_t)r.code);
        o.sample = "fault " + fault + " -> " + r.describe();
        return o;
    }

    std::vector<Plan> shrink_candidates(const Plan& p, const Outcome& last) const override {
        std::vector<Plan> out;
        auto pl = plan_get(p);
        if (p.get("mode") != "api") return out;
        if (last.hints.count("opt")) {
            std::vector<Placement> q;
            for (auto& x : pl) { const Opt* op = find_opt(x.name); std::string t = op && op->alias_of ? op->alias_of : x.name; if (t == last.hints.at("opt")) q.push_back(x); }
            if (!q.empty() && q.size() < pl.size()) { Plan n = p; for (long k = 0; k < p.geti("npl"); k++) n.erase("pl" + std::to_string(k)); plan_put(n, q); out.push_back(n); }
        }
        for (size_t i = 0; i < pl.size(); i++) { auto q = pl; q.erase(q.begin() + (long)i); Plan n = p; for (long k = 0; k < p.geti("npl"); k++) n.erase("pl" + std::to_string(k)); plan_put(n, q); out.push_back(n); }
        return out;
    }
};

ScenarioRegistrar reg13(new C13());
ScenarioRegistrar reg20(new C20());

} // namespace
} // namespace sim
