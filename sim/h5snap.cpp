#include "h5snap.hpp"
#include "util.hpp"
#include <hdf5.h>
#include <cstring>

namespace sim {

double H5Obj::at(size_t i) const {
    const unsigned char* p = bytes.data() + i * esize;
    if (cls == 'f') {
        if (esize == 4) { float v; memcpy(&v, p, 4); return v; }
        if (esize == 8) { double v; memcpy(&v, p, 8); return v; }
    } else if (cls == 'i') {
        if (esize == 1) { int8_t v; memcpy(&v, p, 1); return v; }
        if (esize == 2) { int16_t v; memcpy(&v, p, 2); return v; }
        if (esize == 4) { int32_t v; memcpy(&v, p, 4); return v; }
        if (esize == 8) { int64_t v; memcpy(&v, p, 8); return (double)v; }
    } else if (cls == 'u') {
        if (esize == 1) { uint8_t v; memcpy(&v, p, 1); return v; }
        if (esize == 2) { uint16_t v; memcpy(&v, p, 2); return v; }
        if (esize == 4) { uint32_t v; memcpy(&v, p, 4); return v; }
        if (esize == 8) { uint64_t v; memcpy(&v, p, 8); return (double)v; }
    } else if (cls == 's' && esize == 1) { return bytes[i]; }
    return 0.0 / 0.0;
}
std::vector<unsigned char> H5Obj::row(size_t r) const {
    size_t rl = rowlen() * esize;
    return std::vector<unsigned char>(bytes.begin() + r * rl, bytes.begin() + (r + 1) * rl);
}

std::vector<double> H5Snap::values(const std::string& p) const {
    std::vector<double> v;
    auto o = get(p);
    if (!o) return v;
    size_t n = o->count();
    v.resize(n);
    for (size_t i = 0; i < n; i++) v[i] = o->at(i);
    return v;
}
std::vector<float> H5Snap::f32(const std::string& p) const {
    std::vector<float> v;
    auto o = get(p);
    if (!o || o->cls != 'f' || o->esize != 4) return v;
    v.resize(o->count());
    if (!v.empty()) memcpy(v.data(), o->bytes.data(), v.size() * 4);
    return v;
}
double H5Snap::attrd(const std::string& p, double dflt) const {
    auto o = attr(p);
    if (!o || o->count() < 1) return dflt;
    return o->at(0);
}

uint64_t H5Snap::digest(const std::function<bool(const std::string&)>& keep) const {
    uint64_t h = 1469598103934665603ull;
    auto add = [&](const std::string& name, const H5Obj& o) {
        if (keep && !keep(name)) return;
        h = hash_str(name, h);
        for (auto d : o.dims) h = hash_u64(d, h);
        h = hash_u64((uint64_t)o.cls * 256 + o.esize, h);
        h = hash_bytes(o.bytes.data(), o.bytes.size(), h);
    };
    for (auto& d : ds) add(d.first, d.second);
    for (auto& a : attrs) add(a.first, a.second);
    return h;
}

std::vector<std::string> h5_diff(const H5Snap& a, const H5Snap& b,
                                 const std::function<bool(const std::string&)>& keep) {
    std::vector<std::string> out;
    auto cmp = [&](const std::map<std::string, H5Obj>& x, const std::map<std::string, H5Obj>& y) {
        for (auto& p : x) {
            if (keep && !keep(p.first)) continue;
            auto j = y.find(p.first);
            if (j == y.end()) out.push_back(p.first + " (missing in second)");
            else if (!p.second.same(j->second)) out.push_back(p.first);
        }
        for (auto& p : y) {
            if (keep && !keep(p.first)) continue;
            if (!x.count(p.first)) out.push_back(p.first + " (missing in first)");
        }
    };
    cmp(a.ds, b.ds);
    cmp(a.attrs, b.attrs);
    return out;
}

static bool read_obj(hid_t type, hid_t space, H5Obj& o, const std::function<herr_t(hid_t, void*)>& rd) {
    int rank = H5Sget_simple_extent_ndims(space);
    if (rank < 0) return false;
    std::vector<hsize_t> dims((size_t)rank);
    if (rank > 0) H5Sget_simple_extent_dims(space, dims.data(), nullptr);
    o.dims.assign(dims.begin(), dims.end());
    H5T_class_t c = H5Tget_class(type);
    hid_t mem;
    if (c == H5T_FLOAT) { o.cls = 'f'; mem = H5Tget_native_type(type, H5T_DIR_ASCEND); }
    else if (c == H5T_INTEGER) { o.cls = (H5Tget_sign(type) == H5T_SGN_NONE) ? 'u' : 'i'; mem = H5Tget_native_type(type, H5T_DIR_ASCEND); }
    else { o.cls = 's'; mem = H5Tcopy(type); }
    o.esize = H5Tget_size(mem);
    size_t n = o.count();
    if (H5Sget_simple_extent_type(space) == H5S_NULL) n = 0;
    o.bytes.assign(n * o.esize, 0);
    bool ok = true;
    if (n > 0) ok = rd(mem, o.bytes.data()) >= 0;
    H5Tclose(mem);
    return ok;
}

struct WalkCtx { H5Snap* snap; std::string prefix; hid_t loc; };

static herr_t attr_cb(hid_t loc, const char* name, const H5A_info_t*, void* data) {
    auto* ctx = (WalkCtx*)data;
    hid_t a = H5Aopen(loc, name, H5P_DEFAULT);
    if (a < 0) return 0;
    hid_t t = H5Aget_type(a), s = H5Aget_space(a);
    H5Obj o;
    if (read_obj(t, s, o, [&](hid_t mem, void* buf) { return H5Aread(a, mem, buf); }))
        ctx->snap->attrs[ctx->prefix + "@" + name] = std::move(o);
    H5Sclose(s); H5Tclose(t); H5Aclose(a);
    return 0;
}

static void walk(hid_t grp, const std::string& path, H5Snap& snap, int depth);

static herr_t link_cb(hid_t grp, const char* name, const H5L_info_t* info, void* data) {
    auto* ctx = (WalkCtx*)data;
    std::string full = ctx->prefix + (ctx->prefix == "/" ? "" : "/") + name;
    if (info->type == H5L_TYPE_SOFT) {
        std::vector<char> buf(info->u.val_size + 1, 0);
        H5Lget_val(grp, name, buf.data(), buf.size(), H5P_DEFAULT);
        ctx->snap->links[full] = buf.data();
        return 0;
    }
    if (info->type != H5L_TYPE_HARD) return 0;
    hid_t d = H5Dopen2(grp, name, H5P_DEFAULT);
    if (d >= 0) {
        hid_t t = H5Dget_type(d), s = H5Dget_space(d);
        H5Obj o;
        if (read_obj(t, s, o, [&](hid_t mem, void* buf) { return H5Dread(d, mem, H5S_ALL, H5S_ALL, H5P_DEFAULT, buf); }))
            ctx->snap->ds[full] = std::move(o);
        else { ctx->snap->ok = false; ctx->snap->error += "cannot read " + full + "; "; }
        WalkCtx actx{ctx->snap, full, d};
        hsize_t idx = 0;
        H5Aiterate2(d, H5_INDEX_NAME, H5_ITER_INC, &idx, attr_cb, &actx);
        H5Sclose(s); H5Tclose(t); H5Dclose(d);
        return 0;
    }
    hid_t g = H5Gopen2(grp, name, H5P_DEFAULT);
    if (g >= 0) {
        walk(g, full, *ctx->snap, 0);
        H5Gclose(g);
    }
    return 0;
}

static void walk(hid_t grp, const std::string& path, H5Snap& snap, int) {
    snap.groups.insert(path);
    WalkCtx ctx{&snap, path, grp};
    hsize_t idx = 0;
    H5Aiterate2(grp, H5_INDEX_NAME, H5_ITER_INC, &idx, attr_cb, &ctx);
    idx = 0;
    H5Literate(grp, H5_INDEX_NAME, H5_ITER_INC, &idx, link_cb, &ctx);
}

H5Snap h5_read(const std::string& file) {
    H5Snap snap;
    // silence the automatic error stack printing only for the duration of this read
    H5E_auto2_t oldf; void* olddata;
    H5Eget_auto2(H5E_DEFAULT, &oldf, &olddata);
    H5Eset_auto2(H5E_DEFAULT, nullptr, nullptr);
    hid_t f = H5Fopen(file.c_str(), H5F_ACC_RDONLY, H5P_DEFAULT);
    if (f < 0) {
        snap.error = "cannot open " + file;
    } else {
        snap.ok = true;
        hid_t root = H5Gopen2(f, "/", H5P_DEFAULT);
        walk(root, "/", snap, 0);
        H5Gclose(root);
        H5Fclose(f);
    }
    H5Eset_auto2(H5E_DEFAULT, oldf, olddata);
    return snap;
}

bool h5_write_f32(const std::string& file, const std::string& path,
                  const std::vector<unsigned long long>& dims, const std::vector<float>& data) {
    return h5_write_as(file, path, dims, data, 'f');
}

// the same values stored with another element type: 'f' float32, 'd' float64, 'i' int32, 'h' big-endian float32, 'q' int64
bool h5_write_as(const std::string& file, const std::string& path,
                 const std::vector<unsigned long long>& dims, const std::vector<float>& data, char stored) {
    H5E_auto2_t oldf; void* olddata;
    H5Eget_auto2(H5E_DEFAULT, &oldf, &olddata);
    H5Eset_auto2(H5E_DEFAULT, nullptr, nullptr);
    bool ok = false;
    hid_t f = H5Fcreate(file.c_str(), H5F_ACC_TRUNC, H5P_DEFAULT, H5P_DEFAULT);
    if (f >= 0) {
        hid_t lcpl = H5Pcreate(H5P_LINK_CREATE);
        H5Pset_create_intermediate_group(lcpl, 1);
        std::vector<hsize_t> d(dims.begin(), dims.end());
        hid_t s = d.empty() ? H5Screate(H5S_SCALAR) : H5Screate_simple((int)d.size(), d.data(), nullptr);
        hid_t ft = stored == 'd' ? H5T_IEEE_F64LE : stored == 'i' ? H5T_STD_I32LE : stored == 'q' ? H5T_STD_I64LE : stored == 'h' ? H5T_IEEE_F32BE : H5T_IEEE_F32LE;
        hid_t ds = H5Dcreate2(f, path.c_str(), ft, s, lcpl, H5P_DEFAULT, H5P_DEFAULT);
        if (ds >= 0) {
            size_t n = 1; for (auto x : dims) n *= (size_t)x;
            ok = true;
            if (n > 0 && data.size() >= n) ok = H5Dwrite(ds, H5T_NATIVE_FLOAT, H5S_ALL, H5S_ALL, H5P_DEFAULT, data.data()) >= 0;
            H5Dclose(ds);
        }
        H5Sclose(s); H5Pclose(lcpl); H5Fclose(f);
    }
    H5Eset_auto2(H5E_DEFAULT, oldf, olddata);
    return ok;
}

} // namespace sim
