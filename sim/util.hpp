// Common utilities of the simulator: PRNG, plan representation, hashing, small helpers.
#pragma once
#include <cstdint>
#include <cstdio>
#include <cstring>
#include <cmath>
#include <map>
#include <set>
#include <sstream>
#include <string>
#include <vector>
#include <fstream>
#include <algorithm>
#include <stdexcept>

namespace sim {

// ---------------------------------------------------------------- PRNG
// SplitMix64: every choice of a run derives from one 64-bit seed.
struct Rng {
    uint64_t s;
    explicit Rng(uint64_t seed) : s(seed) {}
    uint64_t u64() {
        uint64_t z = (s += 0x9E3779B97F4A7C15ull);
        z = (z ^ (z >> 30)) * 0xBF58476D1CE4E5B9ull;
        z = (z ^ (z >> 27)) * 0x94D049BB133111EBull;
        return z ^ (z >> 31);
    }
    // uniform in [0,1)
    double unit() { return (u64() >> 11) * (1.0 / 9007199254740992.0); }
    double uniform(double a, double b) { return a + (b - a) * unit(); }
    // integer in [lo,hi] inclusive
    long range(long lo, long hi) {
        if (hi <= lo) return lo;
        return lo + (long)(u64() % (uint64_t)(hi - lo + 1));
    }
    bool chance(double p) { return unit() < p; }
    template <class T> const T& pick(const std::vector<T>& v) { return v[(size_t)range(0, (long)v.size() - 1)]; }
    double loguniform(double a, double b) { return std::exp(uniform(std::log(a), std::log(b))); }
    Rng fork(uint64_t tag) { return Rng(mix(u64(), tag)); }
    static uint64_t mix(uint64_t a, uint64_t b) {
        Rng r(a ^ (b * 0x9E3779B97F4A7C15ull + 0x632BE59BD9B4E019ull));
        r.u64();
        return r.u64();
    }
};

inline uint64_t hash_str(const std::string& s, uint64_t h = 1469598103934665603ull) {
    for (unsigned char c : s) { h ^= c; h *= 1099511628211ull; }
    return h;
}
inline uint64_t hash_bytes(const void* p, size_t n, uint64_t h = 1469598103934665603ull) {
    const unsigned char* c = (const unsigned char*)p;
    for (size_t i = 0; i < n; i++) { h ^= c[i]; h *= 1099511628211ull; }
    return h;
}
inline uint64_t hash_u64(uint64_t v, uint64_t h) { return hash_bytes(&v, sizeof v, h); }

inline uint64_t prop_tag(const std::string& prop) { return hash_str(prop); }
// per-run seed: pure function of (VERIF_SEED, property, run index); worker count does not enter.
inline uint64_t run_seed(uint64_t verif_seed, const std::string& prop, uint64_t index) {
    return Rng::mix(Rng::mix(verif_seed, prop_tag(prop)), index);
}

// ---------------------------------------------------------------- strings
inline std::string esc(const std::string& s) {
    std::string o;
    for (char c : s) {
        if (c == '\\') o += "\\\\";
        else if (c == '\n') o += "\\n";
        else if (c == '\r') o += "\\r";
        else if (c == '\t') o += "\\t";
        else if ((unsigned char)c < 32 || (unsigned char)c >= 127) {
            char b[8]; snprintf(b, sizeof b, "\\x%02x", (unsigned char)c); o += b;
        } else o += c;
    }
    return o;
}
inline std::string unesc(const std::string& s) {
    std::string o;
    for (size_t i = 0; i < s.size(); i++) {
        if (s[i] != '\\' || i + 1 >= s.size()) { o += s[i]; continue; }
        char n = s[++i];
        if (n == 'n') o += '\n';
        else if (n == 'r') o += '\r';
        else if (n == 't') o += '\t';
        else if (n == '\\') o += '\\';
        else if (n == 'x' && i + 2 < s.size()) {
            o += (char)strtol(s.substr(i + 1, 2).c_str(), nullptr, 16); i += 2;
        } else o += n;
    }
    return o;
}
inline std::string json_str(const std::string& s) {
    std::string o = "\"";
    for (char c : s) {
        if (c == '"') o += "\\\"";
        else if (c == '\\') o += "\\\\";
        else if (c == '\n') o += "\\n";
        else if (c == '\r') o += "\\r";
        else if (c == '\t') o += "\\t";
        else if ((unsigned char)c < 32) { char b[8]; snprintf(b, sizeof b, "\\u%04x", (unsigned char)c); o += b; }
        else if ((unsigned char)c >= 127) o += '?';
        else o += c;
    }
    return o + "\"";
}
inline std::string fmt_g(double v, int prec = 17) { char b[64]; snprintf(b, sizeof b, "%.*g", prec, v); return b; }
inline std::vector<std::string> split(const std::string& s, char sep) {
    std::vector<std::string> r; std::string cur;
    for (char c : s) { if (c == sep) { r.push_back(cur); cur.clear(); } else cur += c; }
    r.push_back(cur);
    return r;
}
inline std::string join(const std::vector<std::string>& v, const std::string& sep) {
    std::string o; for (size_t i = 0; i < v.size(); i++) { if (i) o += sep; o += v[i]; } return o;
}
inline bool starts_with(const std::string& s, const std::string& p) { return s.compare(0, p.size(), p) == 0; }
inline bool ends_with(const std::string& s, const std::string& p) { return s.size() >= p.size() && s.compare(s.size() - p.size(), p.size(), p) == 0; }
inline bool contains(const std::string& s, const std::string& p) { return s.find(p) != std::string::npos; }

inline std::string read_file(const std::string& path, bool* ok = nullptr) {
    std::ifstream f(path, std::ios::binary);
    if (!f) { if (ok) *ok = false; return ""; }
    std::stringstream ss; ss << f.rdbuf();
    if (ok) *ok = true;
    return ss.str();
}
inline bool write_file(const std::string& path, const std::string& data) {
    std::ofstream f(path, std::ios::binary | std::ios::trunc);
    if (!f) return false;
    f.write(data.data(), (std::streamsize)data.size());
    return (bool)f;
}

// ---------------------------------------------------------------- plan
// A plan is an ordered list of key=value lines; it is the complete description of one run
// (configuration, input files, faults, interrupt points, entropy seed ...). Replay = f(plan, code).
struct Plan {
    std::vector<std::pair<std::string, std::string>> kv;

    bool has(const std::string& k) const { for (auto& p : kv) if (p.first == k) return true; return false; }
    std::string get(const std::string& k, const std::string& d = "") const {
        for (auto& p : kv) if (p.first == k) return p.second; return d;
    }
    long geti(const std::string& k, long d = 0) const { return has(k) ? strtol(get(k).c_str(), nullptr, 10) : d; }
    uint64_t getu(const std::string& k, uint64_t d = 0) const { return has(k) ? strtoull(get(k).c_str(), nullptr, 10) : d; }
    double getd(const std::string& k, double d = 0) const { return has(k) ? strtod(get(k).c_str(), nullptr) : d; }
    void set(const std::string& k, const std::string& v) {
        for (auto& p : kv) if (p.first == k) { p.second = v; return; }
        kv.emplace_back(k, v);
    }
    void seti(const std::string& k, long v) { set(k, std::to_string(v)); }
    void setu(const std::string& k, uint64_t v) { set(k, std::to_string(v)); }
    void setd(const std::string& k, double v) { set(k, fmt_g(v)); }
    void erase(const std::string& k) {
        kv.erase(std::remove_if(kv.begin(), kv.end(), [&](auto& p) { return p.first == k; }), kv.end());
    }
    std::vector<long> getlist(const std::string& k) const {
        std::vector<long> r; std::string v = get(k);
        if (v.empty()) return r;
        for (auto& t : split(v, ',')) if (!t.empty()) r.push_back(strtol(t.c_str(), nullptr, 10));
        return r;
    }
    void setlist(const std::string& k, const std::vector<long>& v) {
        std::string s; for (size_t i = 0; i < v.size(); i++) { if (i) s += ","; s += std::to_string(v[i]); } set(k, s);
    }
    std::vector<double> getdlist(const std::string& k) const {
        std::vector<double> r; std::string v = get(k);
        if (v.empty()) return r;
        for (auto& t : split(v, ',')) if (!t.empty()) r.push_back(strtod(t.c_str(), nullptr));
        return r;
    }
    void setdlist(const std::string& k, const std::vector<double>& v) {
        std::string s; for (size_t i = 0; i < v.size(); i++) { if (i) s += ","; s += fmt_g(v[i]); } set(k, s);
    }
    std::string text() const {
        std::string o;
        for (auto& p : kv) o += p.first + "=" + esc(p.second) + "\n";
        return o;
    }
    static Plan parse(const std::string& t) {
        Plan p;
        for (auto& line : split(t, '\n')) {
            if (line.empty() || line[0] == '#') continue;
            size_t e = line.find('=');
            if (e == std::string::npos) continue;
            p.kv.emplace_back(line.substr(0, e), unesc(line.substr(e + 1)));
        }
        return p;
    }
    uint64_t fingerprint() const { return hash_str(text()); }
    bool operator==(const Plan& o) const { return kv == o.kv; }
};

} // namespace sim
