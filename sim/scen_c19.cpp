// C19: zero-amplitude RF modulation is the static RF; applied modulation is recorded exactly once.
#include "api.hpp"
#include "common.hpp"

namespace sim {
namespace {

using namespace vfps;

// the accessor of the applied-modulation records, tolerant of a repository in which it was renamed or removed: the program-mode
// checks (and every other property's check, which shares this binary) must still build; the API-mode clause then reports that it
// cannot observe the records
template <class T> auto past_modulation(T& m, int) -> decltype(m.getPastModulation()) { return m.getPastModulation(); }
template <class T> std::vector<std::array<meshaxis_t, 2>> past_modulation(T&, long) { return {}; }
template <class T> constexpr auto has_past_modulation(int) -> decltype(std::declval<T&>().getPastModulation(), true) { return true; }
template <class T> constexpr bool has_past_modulation(long) { return false; }

struct ProbeRF : RFKickMap {
    using RFKickMap::RFKickMap;
    void kick(meshaxis_t phase, meshaxis_t ampl) { _calcKick(phase, ampl); }
};

struct C19 : Scenario {
    const char* id() const override { return "C19"; }
    long default_runs(const std::string& tier) const override { return tier == "quick" ? 200 : 20000; }
    const char* rule() const override {
        return "one evaluation = one comparison: (api_zero) output of DynamicRFKickMap with all amplitudes zero vs RFKickMap after each of 1-50 "
               "applications, both RF models; (api_recorded) the (phase, amplitude) pair recorded for a step reproduces the applied kick through "
               "the static map, noise from the simulated entropy stream; (prog_flush) /RFKicks/data of launches with seeded output cadences "
               "and SIGINT instants vs the reference launch, row for row; (prog_sinus) recorded pure modulation vs the configured sinusoid, "
               "incl. runs longer than 4096 steps; (prog_zero) 1e-30 degree modulation vs static run; distinct_nontrivial counts distinct "
               "(mode, RF model, noise/modulation mix, cadence class, interrupted?) keys";
    }
    const char* measure() const override { return "distinct (mode, RF model, noise/modulation mix, cadence class, interrupt) keys"; }
    std::vector<std::string> assumptions() const override {
        return {"noise values come from the simulated std::random_device stream (the mt19937/normal_distribution code is real)",
                "bit-exact comparisons within one binary"};
    }

    Plan generate(uint64_t seed, long, const std::string& tier) const override {
        Rng r(seed);
        Plan p;
        double u = r.unit();
        std::string mode = u < 0.3 ? "api_zero" : u < 0.55 ? "api_recorded" : u < 0.8 ? "prog_flush" : u < 0.93 ? "prog_sinus" : "prog_zero";
        p.set("mode", mode);
        p.setu("entropy", r.u64());
        p.seti("linear", r.chance(0.5));
        if (starts_with(mode, "api")) {
            p.seti("n", r.range(8, 48)); p.seti("interp", r.range(1, 4)); p.seti("clamp", r.chance(0.2));
            p.setd("shiftx", r.chance(0.5) ? 0 : std::round(r.uniform(-3, 3) * 4) / 4);
            p.setd("angle", r.uniform(0.01, 0.5)); p.setd("frf", r.loguniform(1e8, 3e9));
            p.setd("revpart", r.loguniform(1e-3, 0.5)); p.setd("vrf", r.loguniform(1e5, 5e6)); p.setd("v0frac", r.uniform(0, 0.5));
            p.seti("napply", r.range(1, 50));
            // radians; a quarter of the cases reach phases beyond +-pi (several hundred degrees of modulation or jitter are legal inputs)
            p.setd("phasespread", r.chance(0.6) ? (r.chance(0.25) ? r.loguniform(1e-2, 4) : r.loguniform(1e-5, 1e-2)) : 0);
            p.setd("amplspread", r.chance(0.6) ? r.loguniform(1e-5, 1e-2) : 0);
            p.setd("modampl", r.chance(0.6) ? (r.chance(0.25) ? r.loguniform(5e-2, 10) : r.loguniform(1e-4, 5e-2)) : 0);
            p.setd("modstep", r.loguniform(1e-3, 0.3));
            p.setu("dseed", r.u64());
            return p;
        }
        SwarmOpts o;
        o.allow_dynrf = false; o.allow_tracking = false; o.max_grid = 24; o.max_rot_steps = tier == "quick" ? 14 : 40; o.min_rot_steps = 3;
        Cfg c = swarm_cfg(r, o);
        c.linearRF = p.geti("linear");
        Derived d = derive(c);
        if (mode == "prog_flush") {
            if (r.chance(0.7)) { c.rf_mod_ampl = std::round(r.uniform(0.05, 0.5) * 1000) / 1000; c.rf_mod_freq = std::round(d.fs * r.uniform(0.5, 2)); }
            if (r.chance(0.6) || c.rf_mod_ampl == 0) c.rf_phase_spread = 0.01;
            if (r.chance(0.4)) c.rf_ampl_spread = 1e-3;
            if (r.chance(0.3)) { wild_cfg(r, c); p.seti("wild", 1); d = derive(c); }
            long nv = r.range(2, 5);
            p.seti("nvar", nv);
            for (long i = 0; i < nv; i++) {
                p.seti("v" + std::to_string(i) + ".outstep", r.pick(std::vector<long>{0, 1, 2, 3, 5, (long)d.laststep, (long)d.laststep + 2}));
                p.seti("v" + std::to_string(i) + ".sigint", r.chance(0.5) ? r.range(0, 1000000) : -1);
            }
        } else if (mode == "prog_sinus") {
            c.rf_mod_ampl = std::round(r.uniform(0.05, 2) * 1000) / 1000; c.rf_mod_freq = std::round(d.fs * r.uniform(0.3, 3));
            c.gap = 0; c.wallcond = 0; c.collimator = 0;
            if (r.chance(0.25)) { long ns = derive(c).laststep; c.steps_per_rev = r.uniform(0.05, 0.4); c.rotations = (ns - 0.5) / derive(c).steps; c.rf_mod_freq = std::round(derive(c).fs * r.uniform(0.3, 3)); }
            else if (r.chance(0.3)) {   // long run: more than 4096 steps
                c.grid = 12; c.steps = r.range(40, 200);
                long nsteps = r.pick(std::vector<long>{r.range(4200, 9000), r.range(4097, 4200), r.range(16385, 18000), r.range(16385, 16500), tier == "quick" ? r.range(8193, 9000) : r.range(32769, 34000), tier == "quick" ? r.range(16385, 17000) : r.range(65537, 66000), r.range(65537, 70000)});
                c.rotations = (nsteps - 0.5) / (double)c.steps; c.outstep = r.pick(std::vector<long>{0, 1000, 4096, 5000, nsteps, nsteps - 1, 65537, 16384}); c.saveps = 0;   // (also a single flush for the whole run: every record waits in the map until then)
                c.currents = {1e-3}; c.tdamp = 0; c.renorm = 0;
            }
        } else { // prog_zero
            c.rf_mod_ampl = 1e-30; c.rf_mod_freq = std::round(d.fs);
        }
        c.to_plan(p);
        return p;
    }

    // ---------------------------------------------------------------- API modes
    void run_api(const Plan& plan, RunCtx& rc, Outcome& o) const {
        std::string mode = plan.get("mode");
        unsigned n = (unsigned)plan.geti("n");
        bool linear = plan.geti("linear") != 0;
        auto it = (SourceMap::InterpolationType)plan.geti("interp");
        bool clamp = plan.geti("clamp") != 0;
        float angle = (float)plan.getd("angle");
        float frf = (float)plan.getd("frf");
        double revpart = plan.getd("revpart"), vrf = plan.getd("vrf"), v0 = vrf * plan.getd("v0frac");
        api_begin(rc.workdir, plan.getu("entropy"), 0);
        PhaseSpace::resetSize(n, 1);
        float shift = (float)plan.getd("shiftx");
        float qc = -shift * 12.0f / (n - 1);
        std::vector<integral_t> fill{1.0f};
        auto mk = [&]() { return std::make_shared<PhaseSpace>(qc - 6, qc + 6, 2e-3, -6.f, 6.f, 6e5, nullptr, 1.0, 1.0, fill, 1.0); };
        auto in1 = mk(), out1 = mk(), in2 = mk(), out2 = mk();
        // seeded, not only Gaussian, data
        {
            Rng r(plan.getu("dseed"));
            float* a = in1->getData();
            if (r.chance(0.5)) for (unsigned i = 0; i < n * n; i++) a[i] = (float)r.unit();
            std::copy(a, a + n * n, in2->getData());
        }
        bool zero = mode == "api_zero";
        float ps = zero ? 0 : (float)plan.getd("phasespread"), as = zero ? 0 : (float)plan.getd("amplspread"), ma = zero ? 0 : (float)plan.getd("modampl");
        double mstep = plan.getd("modstep");
        long napply = plan.geti("napply");
        std::unique_ptr<ProbeRF> st;
        std::unique_ptr<DynamicRFKickMap> dyn;
        if (linear) {
            st.reset(new ProbeRF(in1, out1, angle, frf, it, clamp, nullptr));
            dyn.reset(new DynamicRFKickMap(in2, out2, n, n, angle, revpart, frf, ps, as, ma, mstep, (uint32_t)napply, it, clamp, nullptr));
        } else {
            st.reset(new ProbeRF(in1, out1, revpart, vrf, frf, v0, it, clamp, nullptr));
            dyn.reset(new DynamicRFKickMap(in2, out2, n, n, revpart, vrf, frf, v0, ps, as, ma, mstep, (uint32_t)napply, it, clamp, nullptr));
        }
        for (long k = 0; k < napply; k++) {
            dyn->apply();
            if (!has_past_modulation<DynamicRFKickMap>(0)) { o.fail("C19.one_record_per_apply", "DynamicRFKickMap offers no getPastModulation(): the records of the applied modulation cannot be observed step by step"); break; }
            auto past = past_modulation(*dyn, 0);
            o.checks++;
            if (past.size() != 1) { o.fail("C19.one_record_per_apply", "apply #" + std::to_string(k) + " produced " + std::to_string(past.size()) + " records"); break; }
            if (!zero) st->kick(past[0][0], past[0][1]);
            st->apply();
            // independent model of "the phase and amplitude used": the displacement field the dynamic map holds after apply()
            // must be the RF model evaluated (in double) at the recorded pair -- linear: ampl*tan(angle)*((x0-x) + (phi_s-phase)/(k*dq)),
            // sinusoidal: T_rev-part*(-ampl*V*sin(k*q+phase)+V0)/(dE per cell); this does not go through RFKickMap::_calcKick
            if (!zero) {
                const double phase = past[0][0], ampl = past[0][1];
                const auto ax0 = in2->getAxis(0), ax1 = in2->getAxis(1);
                const double kq = ax0->scale("Meter") / 299792458.0 * (double)frf * 6.283185307179586476925;
                const float* f = dyn->getForce();
                double worst = 0; unsigned wx = 0; double wexp = 0, wtol = 0;
                for (unsigned x = 0; x < n; x++) {
                    double expct, tol;
                    if (linear) {
                        double t = std::tan((double)angle);
                        double a = (double)ax0->zerobin() - x, b = (0.0 - phase) / kq / ax0->delta();
                        expct = ampl * t * (a + b);
                        tol = 4e-6 * (std::fabs(ampl * t * a) + std::fabs(ampl * t * b)) + 1e-6;
                    } else {
                        double arg = (double)ax0->at(x) * kq + phase;
                        double amp_cells = revpart * ampl * (double)(float)vrf / ax1->delta() / ax1->scale("ElectronVolt");
                        expct = revpart * (-ampl * (double)(float)vrf * std::sin(arg) + (double)(float)v0) / ax1->delta() / ax1->scale("ElectronVolt");
                        tol = std::fabs(amp_cells) * (8 * 1.2e-7 * (std::fabs(arg) + 1) + 4e-6) + 4e-6 * std::fabs(expct) + 1e-6;
                    }
                    double dev = std::fabs((double)f[x] - expct) / tol;
                    if (dev > worst || std::isnan((double)f[x])) { worst = std::isnan((double)f[x]) ? 1e300 : dev; wx = x; wexp = expct; wtol = tol; }
                }
                o.checks++;
                if (worst > 1) {
                    o.fail("C19.applied_is_rf_model", "application #" + std::to_string(k) + " (" + (linear ? "linear" : "sinusoidal") + " RF): the displacement field in use at x=" + std::to_string(wx) + " is " + fmt_g(f[wx], 9) +
                           " cells but the RF model at the recorded (phase " + fmt_g(phase, 9) + ", amplitude " + fmt_g(ampl, 9) + ") gives " + fmt_g(wexp, 9) + " (tolerance " + fmt_g(wtol, 3) + ")");
                    break;
                }
            }
            size_t where = 0;
            if (!same_bits(out1->getData(), out2->getData(), (size_t)n * n, &where)) {
                float a = out1->getData()[where], b = out2->getData()[where];
                if (!(std::isnan(a) && std::isnan(b))) {
                    if (zero) o.fail(std::string("C19.zero_amplitude_is_static") + (linear ? "_linear" : "_sinusoidal"), "application #" + std::to_string(k) + ": dynamic map with all amplitudes zero gives " + fmt_g(b, 9) + " at cell " + std::to_string(where) + ", static map " + fmt_g(a, 9));
                    else o.fail("C19.recorded_is_applied", "application #" + std::to_string(k) + ": recorded (phase " + fmt_g(past[0][0], 9) + ", amplitude " + fmt_g(past[0][1], 9) + ") does not reproduce the applied kick (cell " + std::to_string(where) + ": " + fmt_g(a, 9) + " vs " + fmt_g(b, 9) + ")");
                    break;
                }
            }
            bool anynan = false;
            for (unsigned i = 0; i < n * n; i++) if (std::isnan(out2->getData()[i])) { anynan = true; break; }
            if (anynan) { o.fail("C19.finite", "application #" + std::to_string(k) + ": dynamic RF map produced NaN"); break; }
            // ping-pong: the output becomes the next input
            std::copy(out1->getData(), out1->getData() + n * n, in1->getData());
            std::copy(out2->getData(), out2->getData() + n * n, in2->getData());
        }
        o.mixfp(hash_bytes(out2->getData(), (size_t)n * n * 4));
        o.probe(std::string("cls.") + mode + (linear ? ".lin" : ".sin") + (ps > 0 ? ".pn" : "") + (as > 0 ? ".an" : "") + (ma > 0 ? ".mod" : "") + ".ip" + std::to_string((int)it));
        if (simrt::state().entropy_reads > 0) o.fault("entropy_reads", simrt::state().entropy_reads);
        dyn.reset(); st.reset();
        api_end();
        o.nontrivial = true;
        o.sample = mode + (linear ? " linear" : " sinusoidal") + " n=" + std::to_string(n) + " applications=" + std::to_string(napply) + " phasespread=" + fmt_g(ps, 3) + " amplspread=" + fmt_g(as, 3) + " modampl=" + fmt_g(ma, 3);
    }

    // ---------------------------------------------------------------- program modes
    static bool launch(Outcome& o, const Cfg& c, RunCtx& rc, const std::string& tag, uint64_t entropy, const std::vector<long>& sig, LaunchResult& r, H5Snap& s) {
        Launch l = make_launch(c, rc.workdir, tag, entropy, 0);
        l.rt.sigint_points = sig;
        r = run_launch(l);
        o.launches++; o.simsteps += r.sumi("steps_done");
        if (!r.exited || r.code != 0) { o.set_infra("launch " + tag + " failed: " + r.describe() + " " + tail(r.err)); return false; }
        s = h5_read(rc.workdir + "/" + c.output);
        if (!s.ok) { o.set_infra("launch " + tag + ": unreadable results"); return false; }
        o.mixfp(r.evhash()); o.mixfp(s.digest());
        return true;
    }

    void run_prog(const Plan& plan, RunCtx& rc, Outcome& o) const {
        std::string mode = plan.get("mode");
        Cfg cfg = Cfg::from_plan(plan);
        Derived d = derive(cfg);
        uint64_t entropy = plan.getu("entropy");
        std::string key = std::string("cls.") + mode + (cfg.linearRF ? ".lin" : ".sin");
        if (mode == "prog_zero") {
            Cfg a = cfg, b = cfg;
            a.output = "dyn.h5"; b.output = "static.h5"; b.rf_mod_ampl = 0; b.rf_mod_freq = 0;
            LaunchResult ra, rb; H5Snap sa, sb;
            if (!launch(o, a, rc, "dyn", entropy, {}, ra, sa) || !launch(o, b, rc, "static", entropy, {}, rb, sb)) return;
            if (!log_has(ra.out, "Building dynamic")) { o.set_infra("1e-30 degree modulation did not select the dynamic map"); return; }
            o.checks++;
            auto diff = h5_diff(sa, sb, [](const std::string& p) { return !starts_with(p, "/RFKicks") && !starts_with(p, "/Info/Parameters@") ; });
            if (!diff.empty()) o.fail(std::string("C19.zero_amplitude_is_static") + (cfg.linearRF ? "_linear" : "_sinusoidal"), "run with 1e-30 degree modulation differs from the static run in " + diff[0] + " (+" + std::to_string(diff.size() - 1) + " more)");
            o.probe(key);
            o.sample = "prog_zero " + cfg.summary();
            o.nontrivial = true;
            return;
        }
        // reference: flush every step
        Cfg ref = cfg; ref.output = "ref.h5"; ref.outstep = 1;
        LaunchResult rr; H5Snap sr;
        if (!launch(o, ref, rc, "ref", entropy, {}, rr, sr)) return;
        auto rf = sr.get(RF_DATA);
        if (!d.dynamic_rf) { o.set_infra("plan does not use dynamic RF"); return; }
        o.checks++;
        if (!rf || rf->rows() != d.laststep || rf->rowlen() != 2) { o.fail("C19.exactly_once", "reference run (flush every step): /RFKicks/data has " + std::to_string(rf ? rf->rows() : 0) + " rows for " + std::to_string(d.laststep) + " executed steps"); return; }
        if (mode == "prog_sinus") {
            // column 0 - phi_s = A sin(2 pi f_mod dt k), column 1 == 1
            float A = (float)std::max(0.0, cfg.rf_mod_ampl / 360.0 * 2 * M_PI);
            double w = 2 * M_PI * (cfg.rf_mod_freq * d.dt);
            float phis = cfg.linearRF ? 0.0f : std::asin((float)d.V0 / (float)cfg.VRF);
            // the synchronous phase of the sinusoidal model is asin(V0/V_RF), as main() itself prints it (the program used to hand the
            // effective voltage to the map, fix 99a9e36; this oracle had copied that)
            for (unsigned k = 0; k < d.laststep; k++) {
                o.checks++;
                float expect = phis + 0.0f + (float)(A * std::sin(w * (double)k));
                double got = rf->at(2 * k), amp = rf->at(2 * k + 1);
                // the program keeps the angular increment and the running argument in single precision: the configured
                // frequency is met to float precision (relative 6e-8), which accumulates linearly in the step number
                float wf = (float)w;
                double argerr = (double)k * std::fabs((double)wf - w) + 2.4e-7 * std::fabs(w * (double)k);
                if (std::fabs(got - expect) > A * argerr + 4e-7 * (A + std::fabs(phis)) + 1e-12) { o.fail("C19.pure_sinusoid", "step " + std::to_string(k) + ": recorded phase " + fmt_g(got, 9) + " but the configured modulation (amplitude " + fmt_g(A, 6) + " rad, " + fmt_g(cfg.rf_mod_freq, 6) + " Hz) gives " + fmt_g(expect, 9)); break; }
                if (amp != 1.0) { o.fail("C19.pure_sinusoid", "step " + std::to_string(k) + ": recorded amplitude " + fmt_g(amp, 9) + " without amplitude noise"); break; }
            }
            if (d.laststep > 4096) o.probe("reach.more_than_4096_steps");
            o.probe(key + (d.laststep > 4096 ? ".long" : ""));
            o.sample = "prog_sinus " + cfg.summary() + " steps=" + std::to_string(d.laststep);
            o.nontrivial = true;
            // also with the plan's own cadence: same rows
            Cfg own = cfg; own.output = "own.h5";
            LaunchResult ro; H5Snap so;
            if (!launch(o, own, rc, "own", entropy, {}, ro, so)) return;
            o.checks++;
            auto rf2 = so.get(RF_DATA);
            if (!rf2 || !rf2->same(*rf)) o.fail("C19.exactly_once", "outstep=" + std::to_string(cfg.outstep) + ": /RFKicks/data (" + std::to_string(rf2 ? rf2->rows() : 0) + " rows) differs from the every-step reference (" + std::to_string(rf->rows()) + " rows)");
            return;
        }
        // prog_flush: cadences and interrupts
        long nv = plan.geti("nvar");
        for (long i = 0; i < nv; i++) {
            Cfg c = cfg; c.output = "v" + std::to_string(i) + ".h5";
            c.outstep = plan.geti("v" + std::to_string(i) + ".outstep");
            long sg = plan.geti("v" + std::to_string(i) + ".sigint", -1);
            std::vector<long> sig;
            if (sg >= 0) {
                // hook hits of this cadence: dry launch
                Cfg dc = c; dc.output = "dry.h5";
                LaunchResult r0; H5Snap s0;
                if (!launch(o, dc, rc, "dry", entropy, {}, r0, s0)) return;
                long H = r0.sumi("point_hits");
                sig.push_back(sg % H);
            }
            LaunchResult r; H5Snap s;
            if (!launch(o, c, rc, "v" + std::to_string(i), entropy, sig, r, s)) return;
            unsigned executed = (unsigned)r.sumi("steps_done");
            auto rfv = s.get(RF_DATA);
            o.checks++;
            std::string what = "outstep=" + std::to_string(c.outstep) + (sig.empty() ? "" : ", SIGINT at hook hit " + std::to_string(sig[0]) + " (" + (r.raised.empty() ? "not reached" : r.raised[0]) + ")");
            if (!r.raised.empty()) { o.fault("sigint_point"); o.probe("reach.interrupted"); }
            if (!rfv || rfv->rows() != executed) { o.hints["var"] = std::to_string(i); o.fail("C19.exactly_once", what + ": /RFKicks/data has " + std::to_string(rfv ? rfv->rows() : 0) + " rows but " + std::to_string(executed) + " steps were executed"); continue; }
            std::string e = cmp_rows(s, sr, RF_DATA, executed);
            if (!e.empty()) { o.hints["var"] = std::to_string(i); o.fail("C19.exactly_once", what + ": rows differ from the every-step reference: " + e); }
            std::string oc = c.outstep == 0 ? "never" : c.outstep == 1 ? "every" : (unsigned)c.outstep >= d.laststep ? "beyond" : "n";
            o.probe(key + "." + oc + (r.raised.empty() ? "" : ".sigint") + (cfg.rf_phase_spread > 0 ? ".pn" : "") + (cfg.rf_ampl_spread > 0 ? ".an" : "") + (cfg.rf_mod_ampl > 0 ? ".mod" : ""));
        }
        o.fault("entropy_reads", rr.sumi("entropy_reads"));
        o.sample = "prog_flush " + cfg.summary() + " variants=" + std::to_string(nv);
        o.nontrivial = true;
    }

    Outcome run(const Plan& plan, RunCtx& rc) const override {
        Outcome o;
        if (starts_with(plan.get("mode"), "api")) run_api(plan, rc, o);
        else run_prog(plan, rc, o);
        o.mixfp((uint64_t)o.fails.size());
        return o;
    }

    std::vector<Plan> shrink_candidates(const Plan& p, const Outcome& last) const override {
        std::vector<Plan> out;
        std::string mode = p.get("mode");
        if (starts_with(mode, "api")) {
            if (p.geti("napply") > 1) { Plan q = p; q.seti("napply", std::max(1L, p.geti("napply") / 2)); out.push_back(q); }
            for (auto k : {"phasespread", "amplspread", "modampl", "shiftx"}) if (p.getd(k) != 0) { Plan q = p; q.setd(k, 0); out.push_back(q); }
            if (p.geti("n") > 8) { Plan q = p; q.seti("n", 8); out.push_back(q); }
            if (p.geti("clamp")) { Plan q = p; q.seti("clamp", 0); out.push_back(q); }
            return out;
        }
        if (mode == "prog_flush" && last.hints.count("var") && p.geti("nvar") > 1) {
            long i = atol(last.hints.at("var").c_str());
            Plan q = p;
            q.seti("v0.outstep", p.geti("v" + std::to_string(i) + ".outstep"));
            q.seti("v0.sigint", p.geti("v" + std::to_string(i) + ".sigint", -1));
            q.seti("nvar", 1);
            out.push_back(q);
        }
        if (mode == "prog_flush" && p.geti("nvar") == 1 && p.geti("v0.sigint", -1) >= 0) { Plan q = p; q.seti("v0.sigint", -1); out.push_back(q); }
        Cfg c = Cfg::from_plan(p);
        auto with = [&](std::function<void(Cfg&)> f) { Cfg d = c; Plan q = p; f(d); d.to_plan(q); if (!(q == p)) out.push_back(q); };
        with([](Cfg& d) { d.gap = 0; d.wallcond = 0; d.collimator = 0; d.useCSR = true; });
        with([](Cfg& d) { d.currents = {1e-3}; });
        with([](Cfg& d) { d.tdamp = 0; d.shiftx = d.shifty = 0; d.renorm = 0; d.saveps = 0; });
        with([](Cfg& d) { d.rf_phase_spread = 0; });
        with([](Cfg& d) { d.rf_ampl_spread = 0; });
        with([](Cfg& d) { d.grid = 12; });
        with([](Cfg& d) { Derived dd = derive(d); if (dd.laststep > 2 && dd.laststep < 4000) d.rotations = (dd.laststep / 2 - 0.5) / dd.steps; });
        return out;
    }
};

ScenarioRegistrar reg(new C19());

} // namespace
} // namespace sim
