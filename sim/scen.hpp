// Scenario interface: one per claimed property.
#pragma once
#include "util.hpp"
#include <map>
#include <string>
#include <vector>

namespace sim {

struct Fail { std::string clause; std::string detail; };

struct Outcome {
    std::vector<Fail> fails;             // violated oracle clauses (all of them, not just the first)
    bool discarded = false;              // run left the property's provisos: counted, not judged
    std::string discard_reason;
    bool infra = false;                  // infrastructure trouble (never a verdict)
    std::string infra_msg;
    std::map<std::string, long> probes;  // reach probes
    std::map<std::string, long> faults;  // fault kinds that actually fired
    uint64_t fingerprint = 1469598103934665603ull; // hash of event logs + result digests
    long launches = 0, simsteps = 0;
    double simperiods = 0;
    std::string shape;                   // key of the "distinct interleavings / states" measure
    bool nontrivial = false;
    std::string sample;                  // short description for the evidence file
    long checks = 0;                     // number of oracle comparisons evaluated
    std::map<std::string, std::string> hints; // e.g. which instant failed (used by the shrinker)

    void fail(const std::string& clause, const std::string& detail) {
        for (auto& f : fails) if (f.clause == clause) return;
        fails.push_back({clause, detail});
    }
    bool has(const std::string& clause) const { for (auto& f : fails) if (f.clause == clause) return true; return false; }
    void probe(const std::string& n, long k = 1) { probes[n] += k; }
    void fault(const std::string& n, long k = 1) { faults[n] += k; }
    void mixfp(uint64_t v) { fingerprint = hash_u64(v, fingerprint); }
    void mixfp(const std::string& s) { fingerprint = hash_str(s, fingerprint); }
    void set_infra(const std::string& m) { infra = true; if (infra_msg.empty()) infra_msg = m; }
    void discard(const std::string& why) { discarded = true; if (discard_reason.empty()) discard_reason = why; }
};

struct RunCtx {
    std::string workdir;   // private scratch directory of this run (exists, empty)
    std::string tier;      // quick | thorough
    bool verbose = false;
};

struct Scenario {
    virtual ~Scenario() {}
    virtual const char* id() const = 0;
    virtual long default_runs(const std::string& tier) const = 0;
    virtual Plan generate(uint64_t seed, long index, const std::string& tier) const = 0;
    virtual Outcome run(const Plan& plan, RunCtx& ctx) const = 0;
    // simpler variants of a failing plan, most aggressive first
    virtual std::vector<Plan> shrink_candidates(const Plan&, const Outcome& /*last failing*/) const { return {}; }
    virtual const char* rule() const = 0;      // how cases are generated; what makes one non-trivial/distinct
    virtual const char* measure() const { return "distinct shape keys"; }
    virtual std::vector<std::string> assumptions() const { return {}; }
    virtual const char* level() const { return "exploration"; }
};

void register_scenario(Scenario* s);
Scenario* find_scenario(const std::string& id);
std::vector<Scenario*>& all_scenarios();

struct ScenarioRegistrar { explicit ScenarioRegistrar(Scenario* s) { register_scenario(s); } };

} // namespace sim
