// Helpers shared by the program-mode scenarios.
#pragma once
#include "cfg.hpp"
#include "h5snap.hpp"
#include "launch.hpp"
#include "scen.hpp"

namespace sim {

// ---- dataset families of a results file
const std::vector<std::string>& record_datasets();      // one row per output record (len == AxisValues_t)
inline const char* TIME_AXIS = "/Info/AxisValues_t";
inline const char* PS_AXIS = "/PhaseSpace/axis0";
inline const char* PS_DATA = "/PhaseSpace/data";
inline const char* RF_DATA = "/RFKicks/data";

// ---- swarm configuration generator (program mode)
struct SwarmOpts {
    long max_grid = 48, min_grid = 12;
    long max_steps = 40, min_steps = 10;  // steps per synchrotron period (fewer is not a meaningful kick-drift scheme: tan(2*pi/4) diverges)
    double max_rot_steps = 12;            // run length in steps (upper bound)
    double min_rot_steps = 2;
    bool allow_wake = true, allow_multibunch = true, allow_tracking = true, allow_dynrf = true;
    bool allow_noise = true;              // RF noise (entropy)
    bool allow_impfile = true;
    bool allow_shift = true;
    bool allow_fp = true;
    bool allow_interp1 = false;
};
Cfg swarm_cfg(Rng& r, const SwarmOpts& o);
// vary the machine numbers the unit factors depend on (synchrotron frequency instead of alpha0, StepsPerRevolution,
// bending radius, energy, spread, voltage, revolution frequency), keeping the number of executed steps
void vary_machine(Rng& r, Cfg& c);
// widen towards the documented domain (zoom, shifts up to a third of the grid, grid extent, padding, voltage, harmonic number,
// higher-order momentum compaction, one-point interpolation, large modulation amplitudes); for bit-exact oracles only
void wild_cfg(Rng& r, Cfg& c);

// input-file authoring
std::string gen_tracking(Rng& r, const Cfg& c, long n);        // "q p" lines in physical (normalised) coordinates
std::string gen_impedance(Rng& r, long rows, double scale);    // "i re im" lines
void stage_inputs(const Plan& p, const std::string& dir);      // writes plan keys file.<name> into dir
inline void plan_file(Plan& p, const std::string& name, const std::string& content) { p.set("file." + name, content); }

// launch from a Cfg
Launch make_launch(const Cfg& c, const std::string& dir, const std::string& tag, uint64_t entropy, int planner);

// compare helpers ------------------------------------------------------------
// rows [0,n) of dataset `name` in a and b identical?  returns "" or a description
std::string cmp_rows(const H5Snap& a, const H5Snap& b, const std::string& name, size_t n);
// row ra of a equals row rb of b
std::string cmp_row(const H5Snap& a, size_t ra, const H5Snap& b, size_t rb, const std::string& name);
// keep predicate: everything except listed parameter attributes
std::function<bool(const std::string&)> all_but(const std::vector<std::string>& excluded);

std::string tail(const std::string& s, size_t n = 300);
bool log_has(const std::string& text, const std::string& needle);

// structure clause of C10 shared with C14: returns list of problems
std::vector<std::string> structure_problems(const H5Snap& s, const Cfg& c, const Derived& d, unsigned executed_steps);

// numeric helpers
double max_abs(const std::vector<double>& v);
uint32_t f2u(float f);
long ulp_diff(float a, float b);

} // namespace sim
