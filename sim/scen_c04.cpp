// C04: without impedance every start relaxes to the unit-width natural Gaussian.
// Bounded liveness in units of the configured damping time, judged on the recorded history of real runs.
#include "common.hpp"

namespace sim {
namespace {

struct Hist { std::vector<double> t, sz, se; bool ok = false; };   // one bunch
struct HistSet { std::vector<Hist> b; bool ok = false; };

struct C04 : Scenario {
    const char* id() const override { return "C04"; }
    long default_runs(const std::string& tier) const override { return tier == "quick" ? 16 : 400; }
    const char* rule() const override {
        return "one evaluation = one recorded period of one long run: (relax) a pair of runs from InitialDistZoom z1<1<z2 with the full Fokker-Planck "
               "term for 10 damping times, stroboscopic output once per synchrotron period; limit independence, closeness to 1 (discretisation "
               "model), constancy after convergence, and the decay rate of the emittance are judged; (damp_only / diff_only / none) monotonic "
               "behaviour and rate of the variants; distinct_nontrivial counts distinct (mode, derivative stencil, interpolation, grid bucket, "
               "decrement bucket, renormalisation mode) keys";
    }
    const char* measure() const override { return "distinct (mode, stencil, interpolation, grid bucket, e1 bucket, renorm mode) keys"; }
    std::vector<std::string> assumptions() const override {
        return {"per-step decrement e1 within [2e-3, min(0.48 cell^2, 0.03)] (explicit scheme stable below cell^2/2; run length 20/e1 steps)",
                "closeness to 1 uses the discretisation model tau = 0.006 + c_d*cell^2 (c_3=0.45, c_4=0.15; calibrated, >=1.5x above the worst observed); "
                "for linear interpolation the scheme's own diffusion inflates the equilibrium and only the bound sigma^2-1 <= 0.6 cell^2/e1 is applied"};
    }

    Plan generate(uint64_t seed, long, const std::string& tier) const override {
        Rng r(seed);
        Plan p;
        Cfg c;
        double u = r.unit();
        std::string mode = u < 0.5 ? "relax" : u < 0.7 ? "damp_only" : u < 0.9 ? "diff_only" : "none";
        p.set("mode", mode);
        c.grid = tier == "quick" ? r.range(36, 60) : r.range(36, 128);
        c.pssize = 12;
        c.steps = r.range(20, 80);
        c.interp = (mode == "relax" && r.chance(0.15)) ? 2 : r.pick(std::vector<long>{3, 3, 4, 4, 4});
        c.deriv = r.pick(std::vector<long>{3, 4});
        c.linearRF = r.chance(0.75);
        // the sinusoidal model with a sizeable synchronous phase (low voltage): focusing ~ V cos(phi_s), phi_s up to ~30 degrees
        c.gap = 0;
        c.renorm = r.pick(std::vector<long>{0, 0, -1, 50});
        c.outstep = c.steps; c.saveps = 0;
        c.padding = 2;
        double delta = c.pssize / (c.grid - 1);
        // decrement as a fraction of the explicit scheme's stability limit e1 = cell^2/2: 40 % of the runs in the upper part
        // of the stable range (fraction 0.2-0.48 of cell^2), bounded to [2e-3, 0.03] for run time
        double frac = r.chance(0.4) ? r.uniform(0.2, 0.48) : r.loguniform(0.02, 0.2);
        if (frac * delta * delta < 2e-3 && r.chance(0.7)) { c.grid = r.range(36, 52); delta = c.pssize / (c.grid - 1); }
        double e1 = std::min(std::max(frac * delta * delta, 2e-3), std::min(0.48 * delta * delta, 0.03));
        if (r.chance(0.3)) { c.shifty = r.chance(0.5) ? (double)r.range(-3, 3) : std::round(r.uniform(-3, 3) * 4) / 4; if (r.chance(0.5)) c.shiftx = (double)r.range(-2, 2); }
        if (r.chance(0.15)) c.fs = std::round(r.uniform(2e4, 8e4));
        // relax mode only (without damping the longer bunch in the smaller bucket filaments, which is physics, not a defect), and only
        // with the machine's own synchrotron frequency: a high given frequency at low voltage means a bunch tens of times longer, for
        // which the sinusoidal potential is no longer harmonic over the bunch and the natural length is not 1
        if (!c.linearRF && mode == "relax" && c.fs == 0 && r.chance(0.6)) c.VRF = std::round(r.loguniform(1e5, 6e5));
        if (r.chance(0.15)) c.steps_per_rev = (double)c.steps * derive(c).fs / derive(c).f_rev * r.uniform(0.97, 1.03);   // non-integer steps per period (computed with the synchrotron frequency in effect)
        Derived d0 = derive(c);
        c.tdamp = 2.0 / (d0.fs * e1 * d0.steps);
        p.setd("e1", e1);
        if (mode == "relax") {
            c.fptype = 3;
            p.setd("z1", std::round(r.uniform(0.5, 0.9) * 100) / 100); p.setd("z2", std::round(r.uniform(1.2, 1.7) * 100) / 100);
            c.rotations = std::ceil(10.0 * 2.0 / (e1 * d0.steps));
        } else if (mode == "damp_only") { c.fptype = 1; c.zoom = std::round(r.uniform(1.0, 1.3) * 100) / 100; c.rotations = std::max(1.0, std::floor(0.45 * 2.0 / (e1 * d0.steps))); }
        else if (mode == "diff_only") { c.fptype = 2; c.zoom = std::round(r.uniform(0.5, 0.9) * 100) / 100; c.rotations = std::max(3.0, std::ceil(0.5 * 2.0 / (e1 * d0.steps))); }
        else { if (r.chance(0.5)) c.fptype = 0; else c.tdamp = 0; c.zoom = std::round(r.uniform(std::max(0.6, 3.0 * delta), 1.3) * 100) / 100; c.rotations = 5; }
        // "from any initial size ... the limit does not depend on the initial distribution": a train of bunches (every bunch has to
        // relax, empty buckets in between), very small starts (exact zeros a few sigma out through underflow) and, for run b of a
        // relax pair, a compact box read from a start file (exact zeros outside the box)
        if (r.chance(0.3)) {
            long nbk = r.range(2, 4);
            c.currents.assign((size_t)nbk, 0.0);
            long filled = 0;
            for (long i = 0; i < nbk; i++) if (r.chance(0.7)) { c.currents[(size_t)i] = std::round(r.uniform(0.5e-3, 3e-3) * 1e5) / 1e5; filled++; }
            if (filled < 2) { c.currents[0] = 1e-3; c.currents[(size_t)nbk - 1] = 2e-3; }
        }
        if (mode == "relax" && r.chance(0.25)) p.setd("z1", std::round(r.uniform(0.15, 0.3) * 100) / 100);
        if (mode == "relax" && r.chance(0.35)) p.seti("parity", 1);
        if (mode == "relax" && c.currents.size() == 1 && r.chance(0.25)) { p.seti("boxstart", 1); p.setd("boxw", std::round(r.uniform(0.8, 2.5) * 100) / 100); p.setd("boxh", std::round(r.uniform(0.8, 2.5) * 100) / 100); }
        // off-centre starts (a Gaussian of the start width written to a start file, displaced in position and energy): the sizes
        // are those about the bunch's own centre, whatever dipole motion the history leaves
        if (c.currents.size() == 1 && !p.geti("boxstart", 0) && r.chance(0.25)) {
            double z = mode == "relax" ? p.getd("z1") : c.zoom;
            double room = std::min(1.5, 5.3 - 4.5 * z);
            if (room > 0.3) { double a = r.uniform(0.3, room), ph = r.uniform(0, 2 * M_PI); p.setd("offq", a * std::cos(ph)); p.setd("offp", a * std::sin(ph)); }
        }
        c.to_plan(p);
        p.setu("entropy", r.u64());
        return p;
    }

    // Gaussian of width z centred on (q0,p0), as a start file
    static bool write_gauss(const Derived& d, unsigned n, double z, double q0, double p0, const std::string& file) {
        std::vector<float> data((size_t)n * n);
        for (unsigned x = 0; x < n; x++) for (unsigned y = 0; y < n; y++) {
            double q = d.qmin + x * (double)d.delta_q - q0, pp = d.pmin + y * (double)d.delta_p - p0;
            data[(size_t)x * n + y] = (float)std::exp(-(q * q + pp * pp) / (2 * z * z));
        }
        return h5_write_f32(file, "/PhaseSpace/data", {1, n, n}, data);
    }

    static HistSet run_one(Outcome& o, const Cfg& c, RunCtx& rc, const std::string& tag, uint64_t entropy) {
        HistSet hs;
        Launch l = make_launch(c, rc.workdir, tag, entropy, 0);
        l.timeout_s = 600;
        LaunchResult r = run_launch(l);
        o.launches++; o.simsteps += r.sumi("steps_done");
        if (!r.exited || r.code != 0) { o.set_infra("launch " + tag + " failed: " + r.describe() + " " + tail(r.err)); return hs; }
        H5Snap s = h5_read(rc.workdir + "/" + c.output);
        if (!s.ok) { o.set_infra("unreadable results"); return hs; }
        size_t nb = derive(c).nbunches;
        if (!c.startfile.empty()) nb = 1;
        auto t = s.values(TIME_AXIS), sz = s.values("/BunchLength/data"), se = s.values("/EnergySpread/data");
        if (nb == 0 || sz.size() != t.size() * nb || se.size() != t.size() * nb || t.size() < 2) { o.set_infra("history shapes"); return hs; }
        hs.b.resize(nb);
        for (size_t b = 0; b < nb; b++) {
            hs.b[b].t = t;
            for (size_t i = 0; i < t.size(); i++) { hs.b[b].sz.push_back(sz[i * nb + b]); hs.b[b].se.push_back(se[i * nb + b]); }
            hs.b[b].ok = true;
        }
        hs.ok = true;
        o.mixfp(r.evhash()); o.mixfp(s.digest());
        return hs;
    }

    Outcome run(const Plan& plan, RunCtx& rc) const override {
        Outcome o;
        Cfg cfg = Cfg::from_plan(plan);
        Derived d = derive(cfg);
        std::string mode = plan.get("mode");
        uint64_t entropy = plan.getu("entropy");
        const double e1 = plan.getd("e1");
        const double delta = d.delta_q;
        const double rate = e1 * d.steps;            // emittance e-folding rate per synchrotron period (= 2/(f_s t_d))
        const double Td = 2.0 / rate;                // damping time of the amplitudes, in periods
        std::string ctx = " [grid " + std::to_string(cfg.grid) + ", " + fmt_g(d.steps, 4) + " steps/period, e1 " + fmt_g(e1, 3) + " (damping time " + fmt_g(Td, 4) + " periods), derivation " + std::to_string(cfg.deriv) +
                          ", interpolation " + std::to_string(cfg.interp) + ", renorm " + std::to_string(cfg.renorm) + (cfg.linearRF ? "" : ", sinusoidal RF") + "]";
        if (std::fabs((double)d.e1 - e1) > 1e-3 * e1 && mode != "none") { o.set_infra("decrement model mismatch: " + fmt_g(d.e1) + " vs " + fmt_g(e1)); return o; }
        std::string gb = cfg.grid < 32 ? "g<32" : cfg.grid < 48 ? "g<48" : cfg.grid < 72 ? "g<72" : "g>=72";
        std::string eb = e1 < 5e-3 ? "e<5e-3" : e1 < 1.5e-2 ? "e<1.5e-2" : "e>=1.5e-2";
        o.probe("cls." + mode + ".d" + std::to_string(cfg.deriv) + ".ip" + std::to_string(cfg.interp) + "." + gb + "." + eb + ".rn" + (cfg.renorm < 0 ? "off" : cfg.renorm == 0 ? "init" : "n"));
        o.nontrivial = true;
        if (mode == "relax") {
            Cfg a = cfg, b = cfg;
            a.zoom = plan.getd("z1"); b.zoom = plan.getd("z2"); a.output = "a.h5"; b.output = "b.h5";
            if (plan.geti("boxstart", 0)) {
                // run b starts from a file: a uniform box |q| < w, |p| < h (exact zeros outside)
                unsigned long long n = (unsigned long long)cfg.grid;
                std::vector<float> data(n * n, 0.0f);
                double w = plan.getd("boxw"), hh = plan.getd("boxh");
                for (unsigned long long x = 0; x < n; x++) for (unsigned long long y = 0; y < n; y++) {
                    double q = d.qmin + x * d.delta_q, pp = d.pmin + y * d.delta_p;
                    if (std::fabs(q) < w && std::fabs(pp) < hh) data[x * n + y] = 1.0f;
                }
                if (!h5_write_f32(rc.workdir + "/box.h5", "/PhaseSpace/data", {1, n, n}, data)) { o.set_infra("cannot write start file"); return o; }
                b.startfile = "box.h5"; b.zoom = 1;
                o.probe("reach.compact_start_file");
            }
            if (plan.has("offq")) {
                if (!write_gauss(d, (unsigned)cfg.grid, a.zoom, plan.getd("offq"), plan.getd("offp"), rc.workdir + "/offa.h5")) { o.set_infra("cannot write start file"); return o; }
                a.startfile = "offa.h5";
                o.probe("reach.off_centre_start");
            }
            if (a.zoom <= 0.3) o.probe("reach.start_with_exact_zero_columns");
            HistSet hsa = run_one(o, a, rc, "a", entropy); if (!hsa.ok) return o;
            HistSet hsb = run_one(o, b, rc, "b", entropy); if (!hsb.ok) return o;
            if (hsa.b.size() != hsb.b.size()) { o.set_infra("bunch counts differ"); return o; }
            if (hsa.b.size() > 1) o.probe("reach.multibunch");
            for (size_t bi = 0; bi < hsa.b.size() && o.fails.empty(); bi++) {
            const Hist& ha = hsa.b[bi]; const Hist& hb = hsb.b[bi];
            const std::string ctx0 = ctx;
            std::string ctx = ctx0 + (hsa.b.size() > 1 ? " bunch " + std::to_string(bi) + " of " + std::to_string(hsa.b.size()) : "") + (b.startfile.empty() ? "" : " (second start: uniform box from a start file)");
            size_t n = ha.t.size();
            o.checks += 2 * n;
            double za = ha.sz.back(), ea = ha.se.back(), zb = hb.sz.back(), eb_ = hb.se.back();
            // A kick-drift scheme has a slightly tilted invariant ellipse, so bunch length and energy spread individually beat by
            // O(theta) around the matched value; their quadratic mean (the emittance) does not: sizes are judged through it.
            auto em = [](const Hist& h, size_t i) { return (h.sz[i] * h.sz[i] + h.se[i] * h.se[i]) / 2; };
            double sa = std::sqrt(em(ha, n - 1)), sb = std::sqrt(em(hb, n - 1));
            const double tilt = 0.6 * (double)d.angle;    // allowed |sigma_z - sigma_E| / sigma
            // (a) the limit does not depend on the start
            if (std::fabs(sa - sb) > 1e-4 || std::fabs(za - zb) > 1e-4 + tilt * 1e-2 || std::fabs(ea - eb_) > 1e-4 + tilt * 1e-2) o.fail("C04.limit_independent_of_start", "after 10 damping times: bunch length " + fmt_g(za, 8) + " vs " + fmt_g(zb, 8) + ", energy spread " + fmt_g(ea, 8) + " vs " + fmt_g(eb_, 8) + " for starts " + fmt_g(a.zoom, 3) + " and " + fmt_g(b.zoom, 3) + ctx);
            // (b) close to 1 within the discretisation error
            if (cfg.interp >= 3) {
                double tau = 0.01 + (cfg.deriv == 3 ? 0.45 : 0.25) * delta * delta;
                if (std::fabs(sa - 1) > tau || std::fabs(sb - 1) > tau || std::fabs(za - ea) > tilt + 0.01) o.fail("C04.converges_to_one", "after 10 damping times length/spread are " + fmt_g(za, 6) + "/" + fmt_g(ea, 6) + " and " + fmt_g(zb, 6) + "/" + fmt_g(eb_, 6) + "; allowed deviation of their quadratic mean from 1: " + fmt_g(tau, 3) + ctx);
                o.hints["devrel"] = fmt_g(std::fabs(sa - 1) / (delta * delta), 4);
            } else {
                double bound = 0.6 * delta * delta / e1 + 0.01;
                if (sa * sa - 1 > bound || sa < 0.97) o.fail("C04.converges_to_one", "linear interpolation: equilibrium " + fmt_g(za, 6) + "/" + fmt_g(ea, 6) + " outside [0.97, sqrt(1+" + fmt_g(bound, 3) + ")]" + ctx);
            }
            // (c) then stays constant: over the last two damping times
            for (const Hist* h : {&ha, &hb}) {
                double lo = 1e9, hi = -1e9;
                for (size_t i = 0; i < n; i++) if (h->t[i] >= h->t.back() - 2 * Td) { double e = std::sqrt(em(*h, i)); lo = std::min(lo, e); hi = std::max(hi, e); }
                if (hi - lo > 1e-5) { o.fail("C04.stays_constant", "over the last two damping times the size (quadratic mean of length and spread) varies by " + fmt_g(hi - lo, 3) + ctx); break; }
                o.hints["const"] = fmt_g(hi - lo, 3);
            }
            // (d) rate: emittance decays with 2/(f_s t_d) per period; fitted over the first three damping times
            if (cfg.interp >= 3) for (const Hist* h : {&ha, &hb}) {
                double einf = (h->sz.back() * h->sz.back() + h->se.back() * h->se.back()) / 2;
                // (a start whose emittance already is the equilibrium one - e.g. a uniform box of half-width ~1.7 - has no decay to fit:
                //  thorough tier, box start, fitted "rate" 0.21 vs 0.11 on a difference of a few 1e-3)
                if (std::fabs((h->sz[0] * h->sz[0] + h->se[0] * h->se[0]) / 2 - einf) < 0.1) continue;
                double sx = 0, sy = 0, sxx = 0, sxy = 0; int m = 0;
                for (size_t i = 0; i < n; i++) {
                    if (h->t[i] > 1.5 * Td) break;
                    double e = (h->sz[i] * h->sz[i] + h->se[i] * h->se[i]) / 2 - einf;
                    if (std::fabs(e) < 1e-4) break;
                    double y = std::log(std::fabs(e)); sx += h->t[i]; sy += y; sxx += h->t[i] * h->t[i]; sxy += h->t[i] * y; m++;
                }
                if (m >= 4) {
                    double slope = (m * sxy - sx * sy) / (m * sxx - sx * sx);
                    o.checks++;
                    if (!(-slope > rate / 1.5 && -slope < rate * 1.5)) { o.fail("C04.rate", "emittance relaxes with " + fmt_g(-slope, 4) + " per period, configured damping gives " + fmt_g(rate, 4) + " (2/(f_s t_d))" + ctx); break; }
                }
            }
            // (e) the limit does not hinge on the parity of the mesh (a row exactly at zero energy exists for odd sizes only): the same
            // run on a mesh with one more point; the cell size changes by 1/(n-1), the discretisation error by a few per cent of itself
            if (bi == 0 && plan.geti("parity", 0) && cfg.interp >= 3 && hsa.b.size() == 1 && b.startfile.empty() && a.startfile.empty()) {
                Cfg c2 = a; c2.grid = a.grid + 1; c2.output = "c.h5";
                // keep the physical extent and the per-step decrement: only the number of mesh points differs
                HistSet hsc = run_one(o, c2, rc, "c", entropy);
                if (hsc.ok && hsc.b.size() == 1 && hsc.b[0].t.size() == n) {
                    const Hist& hc = hsc.b[0];
                    double sc = std::sqrt((hc.sz[n - 1] * hc.sz[n - 1] + hc.se[n - 1] * hc.se[n - 1]) / 2);
                    double tolp = 0.002 + 0.08 * delta * delta;
                    o.checks++; o.probe("reach.mesh_parity_twin");
                    o.hints["parity"] = fmt_g(std::fabs(sa - sc), 3) + "/" + fmt_g(std::fabs(sa - sc) / (delta * delta), 3);
                    if (std::fabs(sa - sc) > tolp) o.fail("C04.limit_independent_of_mesh_parity", "equilibrium size " + fmt_g(sa, 7) + " on " + std::to_string(a.grid) + " mesh points but " + fmt_g(sc, 7) + " on " + std::to_string(c2.grid) + " (allowed difference " + fmt_g(tolp, 3) + ")" + ctx);
                }
            }
            o.simperiods = 2 * ha.t.back();
            if (bi == 0) o.sample = "relax parity=" + o.hints["parity"] + " devrel=" + o.hints["devrel"] + " const=" + o.hints["const"] + " z=" + fmt_g(a.zoom, 3) + "," + fmt_g(b.zoom, 3) + " -> " + fmt_g(za, 6) + "/" + fmt_g(ea, 6) + " , " + fmt_g(zb, 6) + "/" + fmt_g(eb_, 6) + ctx;
            }
            return o;
        }
        Cfg c = cfg; c.output = "v.h5";
        if (plan.has("offq")) {
            if (!write_gauss(d, (unsigned)cfg.grid, c.zoom, plan.getd("offq"), plan.getd("offp"), rc.workdir + "/offv.h5")) { o.set_infra("cannot write start file"); return o; }
            c.startfile = "offv.h5";
            o.probe("reach.off_centre_start");
        }
        HistSet hs = run_one(o, c, rc, "v", entropy); if (!hs.ok) return o;
        if (hs.b.size() > 1) o.probe("reach.multibunch");
        for (size_t bi = 0; bi < hs.b.size() && o.fails.empty(); bi++) {
        const Hist& h = hs.b[bi];
        const std::string ctx0 = ctx;
        std::string ctx = ctx0 + (hs.b.size() > 1 ? " bunch " + std::to_string(bi) + " of " + std::to_string(hs.b.size()) : "");
        size_t n = h.t.size();
        o.checks += n;
        o.simperiods = h.t.back();
        auto emit = [&](size_t i) { return (h.sz[i] * h.sz[i] + h.se[i] * h.se[i]) / 2; };
        if (mode == "damp_only") {
            for (size_t i = 1; i < n; i++) if (emit(i) > emit(i - 1) * (1 + 0.25 * (double)d.angle * (double)d.angle) + 1e-4) { /* slack: non-stroboscopic samples beat by O(theta^2) */ o.fail("C04.damping_only_shrinks", "damping only: emittance grows from " + fmt_g(emit(i - 1), 7) + " to " + fmt_g(emit(i), 7) + " between periods " + fmt_g(h.t[i - 1], 4) + " and " + fmt_g(h.t[i], 4) + ctx); break; }
            double lnr = std::log(emit(n - 1) / emit(0)), expect = -rate * (h.t[n - 1] - h.t[0]);
            if (!(lnr < 0.4 * expect && lnr > 3.0 * expect - 0.05)) o.fail("C04.damping_only_rate", "damping only: ln(emittance ratio) over " + fmt_g(h.t.back(), 4) + " periods is " + fmt_g(lnr, 4) + ", configured damping gives " + fmt_g(expect, 4) + ctx);
        } else if (mode == "diff_only") {
            for (size_t i = 1; i < n; i++) if (emit(i) < emit(i - 1) * (1 - 0.25 * (double)d.angle * (double)d.angle) - 1e-4) { o.fail("C04.diffusion_only_grows", "diffusion only: emittance shrinks from " + fmt_g(emit(i - 1), 7) + " to " + fmt_g(emit(i), 7) + ctx); break; }
            double grow = emit(n - 1) - emit(0), expect = rate * (h.t[n - 1] - h.t[0]);   // d(emittance)/dt = e1 per step
            if (!(grow > 0.5 * expect && grow < 1.6 * expect + 0.02)) o.fail("C04.diffusion_only_rate", "diffusion only: emittance grew by " + fmt_g(grow, 4) + " over " + fmt_g(h.t.back(), 4) + " periods, configured diffusion gives " + fmt_g(expect, 4) + ctx);
        } else {
            // (plus the scheme's own diffusion: every map application broadens a blob resolved by few cells; observed 0.0077 x number
            //  of steps x (cell/sigma)^4 on a 37-point grid with 80 steps per period: found with VERIF_SEED=3)
            for (size_t i = 1; i < n; i++) if (std::fabs(emit(i) / emit(0) - 1) > 1e-3 + 1e-3 * h.t[i] + 0.25 * (double)d.angle * (double)d.angle + 1.3 * h.t[i] * std::pow((double)d.angle, 3) + 0.012 * h.t[i] * d.steps * std::pow(delta / cfg.zoom, 4)) { /* a round beam is not matched to the tilted invariant ellipse of a kick-drift map; its (sz^2+sE^2)/2 beats by ~theta as the true period (2pi/mu steps) slips against the nominal one */ o.fail("C04.neither_stays_put", "no damping/diffusion: length/spread moved from " + fmt_g(h.sz[0], 6) + "/" + fmt_g(h.se[0], 6) + " to " + fmt_g(h.sz[i], 6) + "/" + fmt_g(h.se[i], 6) + " (emittance ratio " + fmt_g(emit(i) / emit(0), 7) + ") within " + fmt_g(h.t[i], 3) + " periods" + ctx); break; }
        }
        if (bi == 0) o.sample = mode + " zoom=" + fmt_g(cfg.zoom, 3) + " emittance " + fmt_g(emit(0), 5) + " -> " + fmt_g(emit(n - 1), 5) + ctx;
        }
        return o;
    }

    std::vector<Plan> shrink_candidates(const Plan& p, const Outcome&) const override {
        std::vector<Plan> out;
        Cfg c = Cfg::from_plan(p);
        auto with = [&](std::function<void(Cfg&)> f) { Cfg d = c; Plan q = p; f(d); d.to_plan(q); if (!(q == p)) out.push_back(q); };
        with([](Cfg& d) { d.linearRF = true; });
        with([](Cfg& d) { d.renorm = 0; });
        with([](Cfg& d) { d.interp = 4; });
        with([](Cfg& d) { double f = 1e-3; for (double x : d.currents) if (x > 0) { f = x; break; } d.currents = {f}; });
        if (p.geti("boxstart", 0)) { Plan q = p; q.erase("boxstart"); out.push_back(q); }
        if (p.has("offq")) { Plan q = p; q.erase("offq"); q.erase("offp"); out.push_back(q); }
        return out;
    }
};

ScenarioRegistrar reg(new C04());

} // namespace
} // namespace sim
