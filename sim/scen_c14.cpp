// C14: Ctrl-C at any moment leaves a complete, consistent results file.
// Fault enumeration: for a sampled short configuration, EVERY hook-point hit and EVERY
// pwrite of libhdf5 is used as the instant at which SIGINT is delivered.
#include "common.hpp"

namespace sim {
namespace {

struct Instant { char kind; long idx; };   // 'p' hook point, 'w' pwrite, 'c' wall-clock read (inside the message routine)

struct C14 : Scenario {
    const char* id() const override { return "C14"; }
    const char* level() const override { return "fault_enumeration"; }
    long default_runs(const std::string& tier) const override { return tier == "quick" ? 16 : 400; }
    const char* rule() const override {
        return "one evaluation = one interrupted launch (plus its reference launches); per sampled configuration every hook-point hit "
               "index 0..H-1 and every libhdf5 pwrite index 0..W-1 is used as the SIGINT instant, plus PRNG-chosen pairs/triples; "
               "distinct_nontrivial counts distinct (kind,label,phase,output-block?) interrupt classes at which a signal was actually raised";
    }
    const char* measure() const override { return "distinct (kind,label,phase) interrupt classes reached"; }
    std::vector<std::string> assumptions() const override {
        return {"SIGINT is delivered synchronously by raise() at hook points between statements of main() and inside libhdf5's pwrite; "
                "delivery in the middle of a non-I/O library call is not simulated (the handler only sets a flag)",
                "configurations are sampled; the interrupt space of each sampled configuration is enumerated completely",
                "bit-exact comparisons are between launches of the same binary on the same host"};
    }

    Plan generate(uint64_t seed, long, const std::string& tier) const override {
        Rng r(seed);
        Plan p;
        SwarmOpts o;
        o.max_grid = 24; o.min_grid = 10;
        o.max_steps = 30; o.min_steps = 10;
        o.min_rot_steps = 2;
        o.max_rot_steps = tier == "quick" ? 5 : 9;
        Cfg c = swarm_cfg(r, o);
        if (r.chance(0.3)) vary_machine(r, c);
        if (r.chance(0.25)) { wild_cfg(r, c); p.seti("wild", 1); }
        if (c.outstep > 6) c.outstep = r.pick(std::vector<long>{1, 2, 3});
        if (c.currents.size() > 1) { c.padding = std::min(c.padding, 2.0); }
        if (o.allow_tracking && r.chance(0.4)) {
            c.tracking = "track.txt";
            plan_file(p, "track.txt", gen_tracking(r, c, r.range(1, 4)));
        }
        // a run that keeps no results (no output file, run_anyway): the interrupt still has to end it after the step in progress,
        // with the report and a successful exit; the file clauses do not apply
        if (r.chance(0.12)) p.seti("nofile", 1);
        c.to_plan(p);
        p.setu("entropy", r.u64());
        p.seti("planner", 0);
        p.set("only", "");
        // repeated signals: sets of instants given as huge integers, interpreted modulo the number of instants
        std::string multi;
        long nm = r.range(2, 4);
        for (long i = 0; i < nm; i++) {
            if (i) multi += ";";
            long k = r.range(2, 3);
            for (long j = 0; j < k; j++) { if (j) multi += ","; multi += (r.chance(0.8) ? "p" : "w") + std::to_string(r.range(0, 1000000)); }
        }
        p.set("multi", multi);
        return p;
    }

    struct Ctx {
        const Plan* plan; RunCtx* rc; Cfg cfg; Derived d; uint64_t entropy; int planner;
        Outcome* o; H5Snap U; LaunchResult Ures; std::vector<std::string> labels; long H = 0, W = 0, C = 0, B = -1;
        std::map<unsigned, H5Snap> S;   // reference runs configured to stop at step j
        long nlaunch = 0;
        bool hung = false;              // a launch hung: stop enumerating this configuration (every further hang costs the time-out)
    };

    static Launch base_launch(Ctx& x, const Cfg& c, const std::string& tag) {
        Launch l = make_launch(c, x.rc->workdir, tag, x.entropy, x.planner);
        return l;
    }

    const H5Snap& ref_S(Ctx& x, unsigned j) const {
        auto it = x.S.find(j);
        if (it != x.S.end()) return it->second;
        Cfg c = x.cfg;
        c.rotations = j == 0 ? 0 : (j - 0.5) / x.d.steps;
        c.output = "S" + std::to_string(j) + ".h5";
        Launch l = base_launch(x, c, "S" + std::to_string(j));
        LaunchResult r = run_launch(l);
        x.nlaunch++;
        H5Snap s = h5_read(x.rc->workdir + "/" + c.output);
        if (!r.clean_exit() || r.code != 0 || !s.ok) x.o->set_infra("reference run S_" + std::to_string(j) + " failed: " + r.describe() + " " + tail(r.err));
        else if ((unsigned)r.sumi("steps_done") != j) x.o->set_infra("reference run S_" + std::to_string(j) + " executed " + std::to_string(r.sumi("steps_done")) + " steps");
        return x.S[j] = std::move(s);
    }

    // one interrupted launch with the given set of instants; evaluates clauses 1-6 against the first instant
    void check(Ctx& x, const std::vector<Instant>& set, const std::string& name, H5Snap* keep = nullptr) const {
        Outcome& o = *x.o;
        Cfg c = x.cfg;
        c.output = "I.h5";
        Launch l = base_launch(x, c, "I");
        for (auto& in : set) (in.kind == 'p' ? l.rt.sigint_points : in.kind == 'w' ? l.rt.sigint_writes : l.rt.sigint_clocks).push_back(in.idx);
        l.timeout_s = 10;   // (a run of a few steps takes milliseconds; a hang is a verdict of clause 1, not an infrastructure matter)
        LaunchResult r = run_launch(l);
        x.nlaunch++;
        o.checks++;
        auto bad = [&](const std::string& clause, const std::string& msg) {
            if (!o.has(clause)) o.hints["only"] = name;
            o.fail(clause, "interrupt at [" + name + "]: " + msg);
        };
        // clause 1: exits by itself with status 0
        if (r.timed_out) { x.hung = true; bad("C14.exit", "the program did not end within " + std::to_string(l.timeout_s) + " s after the signal (hang); stdout tail: " + tail(r.out, 200)); return; }
        if (!r.exited) { bad("C14.exit", "process died: " + r.describe() + " stderr: " + tail(r.err)); return; }
        if (r.sanitizer) { bad("C14.exit", "sanitizer report: " + tail(r.err, 600)); return; }
        if (r.code != 0) { bad("C14.exit", "exit status " + std::to_string(r.code) + " stderr: " + tail(r.err)); return; }
        if (!r.has_summary) { o.set_infra("no summary from interrupted launch " + name); return; }
        if (r.raised.empty()) { o.set_infra("signal was not raised for " + name + " (H=" + std::to_string(x.H) + ")"); return; }
        // decode first raise: kind:label:idx:loop_heads:steps_done:phase:point_hits
        auto f = split(r.raised[0], ':');
        if (f.size() < 8) { o.set_infra("bad raised record " + r.raised[0]); return; }
        std::string label = f[1], phase = f[5];
        long loop_heads = atol(f[3].c_str()), hits_at = atol(f[6].c_str());
        o.probe("cls.sig." + f[0] + "." + label + "." + phase);
        o.fault(std::string("sigint_") + f[0]);
        if (r.raised.size() > 1) o.fault("sigint_repeated", (long)r.raised.size() - 1);
        if (starts_with(label, "out_")) o.probe("reach.signal_in_output_block");
        if (f[0] == "pwrite") o.probe("reach.signal_inside_pwrite");
        if (f[0] == "clock") o.probe("reach.signal_inside_message_routine");
        if (phase == "setup") o.probe("reach.signal_before_first_step");
        if (phase == "post") o.probe("reach.signal_after_last_step");
        // clause 4: steps executed
        unsigned expect_j = phase == "setup" ? 0 : phase == "loop" ? (unsigned)loop_heads : x.d.laststep;
        unsigned got_j = (unsigned)r.sumi("steps_done");
        if (got_j != expect_j) bad("C14.steps", "executed " + std::to_string(got_j) + " steps, model (finish the step in progress, no more) says " + std::to_string(expect_j));
        // clause 2: reports Aborted
        bool before_report = f[7] == "0";
        (void)hits_at;
        std::string log = read_file(x.rc->workdir + "/I.h5.log");
        bool ab_out = log_has(r.out, "Aborted."), ab_log = log_has(log, "Aborted.");
        bool fin_out = log_has(r.out, "Finished.");
        if (before_report) {
            if (!ab_out || !ab_log) bad("C14.aborted_msg", std::string("no 'Aborted.' in ") + (!ab_out ? "stdout" : "log") + "; stdout tail: " + tail(r.out, 200));
            if (fin_out) bad("C14.aborted_msg", "'Finished.' reported for an interrupted run");
        } else if (!ab_out && !fin_out) bad("C14.aborted_msg", "neither Aborted. nor Finished. reported");
        // clause 3: file opens, structure consistent
        H5Snap I = h5_read(x.rc->workdir + "/I.h5");
        if (!I.ok) { bad("C14.readable", "results file unreadable: " + I.error); return; }
        auto probs = structure_problems(I, x.cfg, x.d, got_j);
        if (!probs.empty()) bad("C14.structure", probs[0] + (probs.size() > 1 ? " (+" + std::to_string(probs.size() - 1) + " more)" : ""));
        // clause 5: equals the run configured to stop at step j
        const H5Snap& S = ref_S(x, got_j);
        if (o.infra) return;
        auto diff = h5_diff(I, S, all_but({"/Info/Parameters@rotations"}));
        if (!diff.empty()) bad("C14.equals_stop_at_j", "differs from the run configured to stop at step " + std::to_string(got_j) + " in " + diff[0] + (diff.size() > 1 ? " (+" + std::to_string(diff.size() - 1) + " more)" : ""));
        // clause 6: every record except the final one equals the uninterrupted run's
        size_t nrec = I.rows(TIME_AXIS);
        if (nrec > 0 && x.U.rows(TIME_AXIS) + 1 >= nrec) {
            std::vector<std::string> names = record_datasets();
            names.push_back("/WakePotential/data");
            for (auto& nme : names) {
                if (!I.has(nme)) continue;
                if (I.rows(nme) == 0) continue;
                std::string e = cmp_rows(I, x.U, nme, std::min(nrec - 1, I.rows(nme)));
                if (!e.empty()) { bad("C14.prefix_of_uninterrupted", e); break; }
            }
            size_t nps = I.rows(PS_DATA);
            if (nps > 1) {
                std::string e = cmp_rows(I, x.U, PS_DATA, nps - 1);
                if (e.empty()) e = cmp_rows(I, x.U, PS_AXIS, nps - 1);
                if (!e.empty()) bad("C14.prefix_of_uninterrupted", e);
            }
            if (x.d.dynamic_rf) {
                std::string e = cmp_rows(I, x.U, RF_DATA, I.rows(RF_DATA));
                if (!e.empty()) bad("C14.prefix_of_uninterrupted", e);
            }
        }
        o.mixfp(r.evhash());
        o.mixfp(I.digest());
        if (keep) *keep = std::move(I);
    }

    Instant decode(Ctx& x, const std::string& tok) const {
        Instant in;
        in.kind = tok[0] == 'w' ? 'w' : tok[0] == 'c' ? 'c' : 'p';
        long v = atol(tok.c_str() + 1);
        long mod = in.kind == 'p' ? x.H : in.kind == 'w' ? x.W : x.C;
        in.idx = mod > 0 ? v % mod : 0;
        return in;
    }
    static std::string iname(const Instant& i) { return std::string(1, i.kind) + std::to_string(i.idx); }

    // runs without a results file: clauses 1 (exit), 2 (report), 4 (steps) at every hook point
    Outcome run_nofile(const Plan& plan, RunCtx& rc) const {
        Outcome o;
        Cfg cfg = Cfg::from_plan(plan);
        Derived d = derive(cfg);
        stage_inputs(plan, rc.workdir);
        cfg.output = ""; cfg.extra = {"--run_anyway", "true"};
        uint64_t entropy = plan.getu("entropy");
        Launch l0 = make_launch(cfg, rc.workdir, "U", entropy, 0);
        LaunchResult u = run_launch(l0);
        long nl = 1;
        if (!u.clean_exit() || u.code != 0 || !u.has_summary || (unsigned)u.sumi("steps_done") != d.laststep || !log_has(u.out, "Finished.")) { o.set_infra("uninterrupted run without results file failed: " + u.describe() + " " + tail(u.err) + tail(u.out, 200)); return o; }
        long H = u.sumi("point_hits");
        std::string only = plan.get("only");
        std::vector<long> pts;
        if (!only.empty()) { for (auto& t : split(only, ',')) if (!t.empty()) pts.push_back(H > 0 ? atol(t.c_str() + 1) % H : 0); }
        else for (long k = 0; k < H; k++) pts.push_back(k);
        for (long k : pts) {
            Launch l = make_launch(cfg, rc.workdir, "I", entropy, 0);
            l.rt.sigint_points = {k};
            LaunchResult r = run_launch(l); nl++; o.checks++;
            std::string name = "p" + std::to_string(k);
            auto bad = [&](const std::string& clause, const std::string& msg) { if (!o.has(clause)) o.hints["only"] = name; o.fail(clause, "no results file kept, interrupt at [" + name + "]: " + msg); };
            if (!r.exited) { bad("C14.exit", "process died: " + r.describe() + " stderr: " + tail(r.err)); continue; }
            if (r.code != 0) { bad("C14.exit", "exit status " + std::to_string(r.code) + " stderr: " + tail(r.err)); continue; }
            if (!r.has_summary || r.raised.empty()) { o.set_infra("signal was not raised for " + name); break; }
            auto f = split(r.raised[0], ':');
            if (f.size() < 8) { o.set_infra("bad raised record"); break; }
            std::string phase = f[5];
            o.probe("cls.nofile.sig." + f[1] + "." + phase);
            o.fault("sigint_point");
            unsigned expect_j = phase == "setup" ? 0 : phase == "loop" ? (unsigned)atol(f[3].c_str()) : d.laststep;
            unsigned got_j = (unsigned)r.sumi("steps_done");
            if (got_j != expect_j) bad("C14.steps", "executed " + std::to_string(got_j) + " steps, model (finish the step in progress, no more) says " + std::to_string(expect_j));
            bool before_report = f[7] == "0";
            bool ab = log_has(r.out, "Aborted."), fin = log_has(r.out, "Finished.");
            if (before_report) { if (!ab) bad("C14.aborted_msg", "no 'Aborted.' on stdout; tail: " + tail(r.out, 200)); if (fin) bad("C14.aborted_msg", "'Finished.' reported for an interrupted run"); }
            else if (!ab && !fin) bad("C14.aborted_msg", "neither Aborted. nor Finished. reported");
            o.mixfp(r.evhash());
        }
        o.probe("reach.no_results_file");
        o.launches = nl; o.simsteps = launch_stats().steps;
        o.shape = "nofileH" + std::to_string(H);
        o.nontrivial = H > 30;
        o.probes["enum.points"] += only.empty() ? H : 0;
        o.sample = cfg.summary() + " (no results file) H=" + std::to_string(H);
        return o;
    }

    Outcome run(const Plan& plan, RunCtx& rc) const override {
        if (plan.geti("nofile", 0)) return run_nofile(plan, rc);
        Outcome o;
        Ctx x;
        x.plan = &plan; x.rc = &rc; x.o = &o;
        x.cfg = Cfg::from_plan(plan);
        x.d = derive(x.cfg);
        x.entropy = plan.getu("entropy");
        x.planner = (int)plan.geti("planner");
        stage_inputs(plan, rc.workdir);
        // dry launch: the uninterrupted run U, with a textual label log
        {
            Cfg c = x.cfg; c.output = "U.h5";
            Launch l = base_launch(x, c, "U");
            l.rt.text_log = true;
            x.Ures = run_launch(l);
            x.nlaunch++;
            if (!x.Ures.clean_exit() || x.Ures.code != 0 || !x.Ures.has_summary) {
                // the uninterrupted run itself must work; if it does not, this is C17's business, not ours
                o.set_infra("uninterrupted run failed: " + x.Ures.describe() + " " + tail(x.Ures.err));
                return o;
            }
            x.U = h5_read(rc.workdir + "/U.h5");
            if (!x.U.ok) { o.set_infra("uninterrupted run produced unreadable file"); return o; }
            x.H = x.Ures.sumi("point_hits");
            x.W = x.Ures.sumi("io_writes");
            x.C = x.Ures.sumi("clock_reads");
            for (auto& line : split(unesc(x.Ures.sum["text"]), '\n'))
                if (starts_with(line, "P ")) x.labels.push_back(line.substr(2));
            for (size_t i = 0; i < x.labels.size(); i++) if (x.labels[i] == "before_report") x.B = (long)i;
            if ((long)x.labels.size() != x.H || x.B < 0) { o.set_infra("label log inconsistent"); return o; }
            if ((unsigned)x.Ures.sumi("steps_done") != x.d.laststep) { o.set_infra("uninterrupted run executed " + std::to_string(x.Ures.sumi("steps_done")) + " steps, model laststep " + std::to_string(x.d.laststep)); return o; }
            auto probs = structure_problems(x.U, x.cfg, x.d, x.d.laststep);
            if (!probs.empty()) o.fail("C14.structure_uninterrupted", probs[0]);
            o.mixfp(x.Ures.evhash());
            o.mixfp(x.U.digest());
        }
        std::string only = plan.get("only");
        std::vector<std::vector<Instant>> sets;
        if (!only.empty()) {
            std::vector<Instant> s;
            for (auto& t : split(only, ',')) if (!t.empty()) s.push_back(decode(x, t));
            sets.push_back(s);
        } else {
            for (long k = 0; k < x.H; k++) sets.push_back({Instant{'p', k}});
            for (long k = 0; k < x.W; k++) sets.push_back({Instant{'w', k}});
            for (long k = 1; k < x.C; k++) sets.push_back({Instant{'c', k}});   // (read 0 precedes the handler's installation)
        }
        for (auto& s : sets) {
            if (s.size() == 1) { check(x, s, iname(s[0])); }
            else {
                // repeated signals: must equal the run that got only the first one
                std::string nm; for (auto& i : s) nm += (nm.empty() ? "" : ",") + iname(i);
                H5Snap a, b;
                check(x, s, nm, &a);
                if (o.infra) break;
                // which one fired first is known from the launch's own record; use single-signal runs of each and
                // require equality with one of them that has the same number of executed steps
                bool matched = false;
                std::string why;
                for (auto& i : s) {
                    Outcome tmp; Outcome* saved = x.o; x.o = &tmp;
                    H5Snap single;
                    check(x, {i}, iname(i), &single);
                    x.o = saved;
                    if (single.ok && a.ok && h5_diff(a, single, nullptr).empty()) { matched = true; break; }
                }
                o.checks++;
                if (a.ok && !matched) { o.hints["only"] = nm; o.fail("C14.repeated_signals", "run with signals at [" + nm + "] equals none of the runs with a single one of them"); }
            }
            if (o.infra || x.hung) break;
        }
        if (only.empty() && !o.infra && !x.hung) {
            for (auto& grp : split(plan.get("multi"), ';')) {
                if (grp.empty()) continue;
                std::vector<Instant> s;
                for (auto& t : split(grp, ',')) if (!t.empty()) s.push_back(decode(x, t));
                if (s.size() < 2) continue;
                std::string nm; for (auto& i : s) nm += (nm.empty() ? "" : ",") + iname(i);
                H5Snap a;
                check(x, s, nm, &a);
                if (o.infra) break;
                bool matched = false;
                for (auto& i : s) {
                    Outcome tmp; Outcome* saved = x.o; x.o = &tmp;
                    H5Snap single;
                    check(x, {i}, iname(i), &single);
                    x.o = saved;
                    if (single.ok && a.ok && h5_diff(a, single, nullptr).empty()) { matched = true; break; }
                }
                o.checks++;
                o.probe("reach.repeated_signals");
                if (a.ok && !matched) { o.hints["only"] = nm; o.fail("C14.repeated_signals", "run with signals at [" + nm + "] equals none of the runs with a single one of them"); }
            }
        }
        // informational probe (never a verdict; the property does not speak about clocks): a backwards jump of the wall clock
        // before the report. Display::printText drops a message when now - lastmessage < silentTime, so the final
        // "Aborted." can vanish from log and stdout when the clock steps back (simulated clock seam).
        if (only.empty() && !o.infra && !x.hung && x.H > 10) {
            Cfg c = x.cfg; c.output = "J.h5";
            Launch l = base_launch(x, c, "J");
            l.rt.sigint_points = {x.H / 2};
            l.rt.clock_jump_at = 3; l.rt.clock_jump_ms = 0;          // dry: count clock reads
            LaunchResult r0 = run_launch(l); x.nlaunch++;
            long reads = r0.sumi("clock_reads");
            if (reads > 4) {
                l.rt.clock_jump_at = reads - 1; l.rt.clock_jump_ms = -3600 * 1000;   // one hour back, right before the last message
                LaunchResult r = run_launch(l); x.nlaunch++;
                o.fault("clock_jump_backwards");
                bool lost = r.exited && r.code == 0 && !log_has(r.out, "Aborted.") && !log_has(r.out, "Finished.");
                o.probe(lost ? "info.clock_jump_backwards.final_message_lost" : "info.clock_jump_backwards.final_message_kept");
            }
        }
        o.launches = x.nlaunch;
        o.simsteps = launch_stats().steps;
        o.shape = "H" + std::to_string(x.H) + "W" + std::to_string(x.W);
        o.nontrivial = x.H > 30;
        o.sample = x.cfg.summary() + " H=" + std::to_string(x.H) + " W=" + std::to_string(x.W) + (only.empty() ? " (all instants)" : " only=" + only);
        o.probes["enum.points"] += only.empty() ? x.H : 0;
        o.probes["enum.pwrites"] += only.empty() ? x.W : 0;
        o.probes["enum.clock_reads"] += only.empty() ? x.C : 0;
        if (x.cfg.renorm > 0) o.probe("reach.renormalisation_on");
        if (x.d.has_wake) o.probe("reach.with_wake");
        if (x.d.dynamic_rf) o.probe("reach.dynamic_rf");
        if (!x.cfg.tracking.empty()) o.probe("reach.tracking");
        if (x.d.nbunches > 1) o.probe("reach.multibunch");
        return o;
    }

    std::vector<Plan> shrink_candidates(const Plan& p, const Outcome& last) const override {
        std::vector<Plan> out;
        if (p.get("only").empty() && last.hints.count("only")) { Plan q = p; q.set("only", last.hints.at("only")); out.push_back(q); }
        Cfg c = Cfg::from_plan(p);
        auto with = [&](std::function<void(Cfg&, Plan&)> f) { Cfg d = c; Plan q = p; f(d, q); d.to_plan(q); if (!(q == p)) out.push_back(q); };
        with([](Cfg& d, Plan&) { d.currents = {d.currents[0] > 0 ? d.currents[0] : 1e-3}; });
        with([](Cfg& d, Plan&) { d.gap = 0; d.wallcond = 0; d.collimator = 0; d.useCSR = true; });
        with([](Cfg& d, Plan& q) { d.tracking = ""; q.erase("file.track.txt"); });
        with([](Cfg& d, Plan&) { d.rf_mod_ampl = d.rf_mod_freq = d.rf_phase_spread = d.rf_ampl_spread = 0; });
        with([](Cfg& d, Plan&) { d.tdamp = 0; });
        with([](Cfg& d, Plan&) { d.shiftx = d.shifty = 0; });
        with([](Cfg& d, Plan&) { d.grid = 10; });
        with([](Cfg& d, Plan&) { d.renorm = 0; });
        with([](Cfg& d, Plan&) { d.saveps = 0; });
        with([](Cfg& d, Plan&) { d.outstep = 1; });
        with([](Cfg& d, Plan&) { d.interp = 4; d.deriv = 4; d.clamp = false; d.zoom = 1; d.pssize = 12; d.padding = 2; d.roundpad = true; d.linearRF = true; d.verbose = false; });
        with([](Cfg& d, Plan&) { Derived dd = derive(d); if (dd.laststep > 1) d.rotations = (dd.laststep - 1 - 0.5) / dd.steps; });
        return out;
    }
};

ScenarioRegistrar reg(new C14());

} // namespace
} // namespace sim
