#include "cfg.hpp"
#include <cmath>
#include <numeric>

namespace sim {

static std::string num(double v) { return fmt_g(v, 17); }

std::vector<std::string> Cfg::args() const {
    std::vector<std::string> a;
    auto opt = [&](const std::string& k, const std::string& v) { a.push_back("--" + k); a.push_back(v); };
    opt("GridSize", std::to_string(grid));
    opt("PhaseSpaceSize", num(pssize));
    opt("PhaseSpaceShiftX", num(shiftx));
    opt("PhaseSpaceShiftY", num(shifty));
    opt("StepsPerTs", std::to_string(steps));
    if (steps_per_rev > 0) opt("StepsPerRevolution", num(steps_per_rev));
    opt("rotations", num(rotations));
    opt("outstep", std::to_string(outstep));
    opt("SavePhaseSpace", std::to_string(saveps));
    opt("InterpolationPoints", std::to_string(interp));
    opt("derivation", std::to_string(deriv));
    opt("InterpolateClamped", clamp ? "true" : "false");
    opt("RenormalizeCharge", std::to_string(renorm));
    opt("padding", num(padding));
    opt("RoundPadding", roundpad ? "true" : "false");
    opt("FPType", std::to_string(fptype));
    opt("FPTrack", std::to_string(fptrack));
    opt("LinearRF", linearRF ? "true" : "false");
    a.push_back("--BunchCurrent");
    for (double c : currents) a.push_back(num(c));
    opt("VacuumGap", num(gap));
    opt("UseCSR", useCSR ? "true" : "false");
    opt("WallConductivity", num(wallcond));
    opt("WallSusceptibility", num(wallsusc));
    opt("CollimatorRadius", num(collimator));
    if (!impedance.empty()) opt("Impedance", impedance);
    opt("DampingTime", num(tdamp));
    opt("RFPhaseSpread", num(rf_phase_spread));
    opt("RFAmplitudeSpread", num(rf_ampl_spread));
    opt("RFPhaseModAmplitude", num(rf_mod_ampl));
    opt("RFPhaseModFrequency", num(rf_mod_freq));
    opt("InitialDistZoom", num(zoom));
    opt("alpha0", num(alpha0));
    opt("alpha1", num(alpha1));
    opt("alpha2", num(alpha2));
    opt("SynchrotronFrequency", num(fs));
    opt("HarmonicNumber", num(H));
    opt("RevolutionFrequency", num(frev));
    opt("BeamEnergy", num(E0));
    opt("BeamEnergySpread", num(sE));
    opt("AcceleratingVoltage", num(VRF));
    opt("BendingRadius", num(rbend));
    opt("CutoffFreq", num(fc));
    if (verbose) opt("verbose", "true");
    if (!tracking.empty()) opt("tracking", tracking);
    if (!startfile.empty()) opt("InitialDistFile", startfile);
    if (has_startstep) opt("InitialDistStep", std::to_string(startstep));
    if (!output.empty()) opt("output", output);
    for (auto& e : extra) a.push_back(e);
    return a;
}

void Cfg::to_plan(Plan& p, const std::string& pre) const {
    p.seti(pre + "grid", grid); p.setd(pre + "pssize", pssize);
    p.setd(pre + "shiftx", shiftx); p.setd(pre + "shifty", shifty);
    p.seti(pre + "steps", steps); p.setd(pre + "steps_per_rev", steps_per_rev);
    p.setd(pre + "rotations", rotations); p.seti(pre + "outstep", outstep); p.seti(pre + "saveps", saveps);
    p.seti(pre + "interp", interp); p.seti(pre + "deriv", deriv); p.seti(pre + "clamp", clamp);
    p.seti(pre + "renorm", renorm); p.setd(pre + "padding", padding); p.seti(pre + "roundpad", roundpad);
    p.seti(pre + "fptype", fptype); p.seti(pre + "fptrack", fptrack);
    p.seti(pre + "linearRF", linearRF); p.setdlist(pre + "currents", currents);
    p.setd(pre + "gap", gap); p.seti(pre + "useCSR", useCSR);
    p.setd(pre + "wallcond", wallcond); p.setd(pre + "wallsusc", wallsusc); p.setd(pre + "collimator", collimator);
    p.set(pre + "impedance", impedance); p.setd(pre + "tdamp", tdamp);
    p.setd(pre + "rf_phase_spread", rf_phase_spread); p.setd(pre + "rf_ampl_spread", rf_ampl_spread);
    p.setd(pre + "rf_mod_ampl", rf_mod_ampl); p.setd(pre + "rf_mod_freq", rf_mod_freq);
    p.setd(pre + "zoom", zoom); p.setd(pre + "alpha0", alpha0); p.setd(pre + "alpha1", alpha1); p.setd(pre + "alpha2", alpha2);
    p.setd(pre + "fs", fs); p.setd(pre + "H", H); p.setd(pre + "frev", frev); p.setd(pre + "E0", E0);
    p.setd(pre + "sE", sE); p.setd(pre + "VRF", VRF); p.setd(pre + "rbend", rbend); p.setd(pre + "fc", fc);
    p.seti(pre + "verbose", verbose); p.set(pre + "tracking", tracking); p.set(pre + "startfile", startfile);
    p.seti(pre + "startstep", startstep); p.seti(pre + "has_startstep", has_startstep);
    p.set(pre + "output", output); p.set(pre + "extra", join(extra, "\x1f"));
}

Cfg Cfg::from_plan(const Plan& p, const std::string& pre) {
    Cfg c;
    c.grid = p.geti(pre + "grid", c.grid); c.pssize = p.getd(pre + "pssize", c.pssize);
    c.shiftx = p.getd(pre + "shiftx", 0); c.shifty = p.getd(pre + "shifty", 0);
    c.steps = p.geti(pre + "steps", c.steps); c.steps_per_rev = p.getd(pre + "steps_per_rev", 0);
    c.rotations = p.getd(pre + "rotations", c.rotations); c.outstep = p.geti(pre + "outstep", c.outstep);
    c.saveps = p.geti(pre + "saveps", 0);
    c.interp = p.geti(pre + "interp", 4); c.deriv = p.geti(pre + "deriv", 4); c.clamp = p.geti(pre + "clamp", 0);
    c.renorm = p.geti(pre + "renorm", 0); c.padding = p.getd(pre + "padding", 2); c.roundpad = p.geti(pre + "roundpad", 1);
    c.fptype = p.geti(pre + "fptype", 3); c.fptrack = p.geti(pre + "fptrack", 3);
    c.linearRF = p.geti(pre + "linearRF", 1);
    if (p.has(pre + "currents")) c.currents = p.getdlist(pre + "currents");
    c.gap = p.getd(pre + "gap", 0); c.useCSR = p.geti(pre + "useCSR", 1);
    c.wallcond = p.getd(pre + "wallcond", 0); c.wallsusc = p.getd(pre + "wallsusc", 0); c.collimator = p.getd(pre + "collimator", 0);
    c.impedance = p.get(pre + "impedance"); c.tdamp = p.getd(pre + "tdamp", -1);
    c.rf_phase_spread = p.getd(pre + "rf_phase_spread", 0); c.rf_ampl_spread = p.getd(pre + "rf_ampl_spread", 0);
    c.rf_mod_ampl = p.getd(pre + "rf_mod_ampl", 0); c.rf_mod_freq = p.getd(pre + "rf_mod_freq", 0);
    c.zoom = p.getd(pre + "zoom", 1); c.alpha0 = p.getd(pre + "alpha0", 4e-3);
    c.alpha1 = p.getd(pre + "alpha1", 0); c.alpha2 = p.getd(pre + "alpha2", 0);
    c.fs = p.getd(pre + "fs", 0); c.H = p.getd(pre + "H", 50); c.frev = p.getd(pre + "frev", 9e6);
    c.E0 = p.getd(pre + "E0", 1.3e9); c.sE = p.getd(pre + "sE", 4.7e-4); c.VRF = p.getd(pre + "VRF", 1e6);
    c.rbend = p.getd(pre + "rbend", -1); c.fc = p.getd(pre + "fc", 23e9);
    c.verbose = p.geti(pre + "verbose", 0); c.tracking = p.get(pre + "tracking"); c.startfile = p.get(pre + "startfile");
    c.startstep = p.geti(pre + "startstep", -1); c.has_startstep = p.geti(pre + "has_startstep", 0);
    c.output = p.get(pre + "output", "out.h5");
    std::string ex = p.get(pre + "extra");
    c.extra.clear();
    if (!ex.empty()) c.extra = split(ex, '\x1f');
    return c;
}

std::string Cfg::summary() const {
    std::string s = "grid=" + std::to_string(grid) + " steps=" + std::to_string(steps) + " T=" + fmt_g(rotations, 6) +
                    " outstep=" + std::to_string(outstep) + " saveps=" + std::to_string(saveps) +
                    " ip=" + std::to_string(interp) + " nb=" + std::to_string(currents.size()) +
                    " gap=" + fmt_g(gap, 4) + " renorm=" + std::to_string(renorm);
    if (!impedance.empty()) s += " Z=" + impedance;
    if (!tracking.empty()) s += " track=" + tracking;
    if (rf_mod_ampl != 0 || rf_phase_spread != 0 || rf_ampl_spread != 0) s += " dynRF";
    if (!startfile.empty()) s += " start=" + startfile;
    return s;
}

uint64_t upper_pow2(uint64_t v) {
    v--; v |= v >> 1; v |= v >> 2; v |= v >> 4; v |= v >> 8; v |= v >> 16; v |= v >> 32; v++;
    return v;
}

Derived derive(const Cfg& c) {
    const double cl = 2.99792458e8, eps0 = 8.854187817e-12, qe = 1.602e-19, me = 510998.9;
    const double twopi = 6.283185307179586476925286766559;
    Derived d;
    const unsigned n = (unsigned)c.grid;
    d.pqsize = (float)c.pssize;
    const float sx = (float)c.shiftx, sy = (float)c.shifty;
    const float qcenter = -sx * d.pqsize / (n - 1);
    const float pcenter = -sy * d.pqsize / (n - 1);
    const float pqhalf = d.pqsize / 2;
    d.qmax = qcenter + pqhalf; d.qmin = qcenter - pqhalf;
    d.pmax = pcenter + pqhalf; d.pmin = pcenter - pqhalf;
    d.delta_q = (d.qmax - d.qmin) / float(n - 1);
    d.delta_p = (d.pmax - d.pmin) / float(n - 1);
    d.dE = c.sE * c.E0;
    d.f_rev = (double)(float)c.frev;
    d.R_bend = c.rbend > 0 ? c.rbend : cl / (twopi * d.f_rev);
    d.harmonic = (double)(float)c.H;
    d.f_RF = d.f_rev * d.harmonic;
    d.bunchspacing = 1.0 / d.f_RF;
    const double gamma = c.E0 / me;
    d.V0 = qe * std::pow(gamma, 4) / (3 * eps0 * d.R_bend);
    const double W0 = d.V0 * qe;
    d.V_eff = std::sqrt(c.VRF * c.VRF - d.V0 * d.V0);
    d.fs = (double)(float)c.fs;
    d.alpha0 = (double)(float)c.alpha0;
    if (d.fs == 0) d.fs = d.f_rev * std::sqrt(d.alpha0 * d.harmonic * d.V_eff / (twopi * c.E0));
    else d.alpha0 = (d.fs > 0 ? 1 : -1) * twopi * c.E0 / (d.harmonic * d.V_eff) * std::pow(d.fs / d.f_rev, 2);
    d.bl = cl * d.dE / d.harmonic / std::pow(d.f_rev, 2.0) / d.V_eff * d.fs;
    d.nbuckets = (unsigned)c.currents.size();
    std::vector<float> bunches;
    for (unsigned i = 0; i < d.nbuckets; i++) {
        float f = (float)c.currents[i];
        if (f > 0) { d.bucketnumbers.push_back(d.nbuckets - 1 - i); bunches.push_back(f); }
    }
    d.nbunches = (unsigned)bunches.size();
    d.Ib = 0; for (float b : bunches) d.Ib += b;
    for (float b : bunches) d.shares.push_back(b / (float)d.Ib);
    d.Qb = d.Ib / d.f_rev;
    d.steps = c.steps_per_rev > 0 ? c.steps_per_rev * d.f_rev / d.fs : (double)std::max<long>(c.steps, 1);
    d.rotations_f = (float)c.rotations;
    d.calc_damp = c.E0 * qe / W0 / d.f_rev;
    d.t_damp = c.tdamp < 0 ? d.calc_damp : c.tdamp;
    d.dt = 1.0 / (d.fs * d.steps);
    d.revolutionpart = d.f_rev * d.dt;
    d.t_sync = 1.0 / d.fs;
    d.spacing_ps = d.bunchspacing * cl / d.bl / d.pqsize;
    d.spacing_bins = (unsigned)std::round(n * d.spacing_ps);
    d.fmax = (float)(n * cl / (d.pqsize * d.bl));
    double padding = std::max(c.padding, 1.0);
    d.padded_bins = (size_t)std::ceil(n * padding);
    if (c.roundpad) d.padded_bins = upper_pow2(d.padded_bins);
    d.spaced_bins = (size_t)std::ceil(n * d.nbuckets * d.spacing_ps);
    if (c.roundpad) d.spaced_bins = upper_pow2(d.spaced_bins);
    d.wake_nmax = d.nbuckets > 1 ? d.spaced_bins : d.padded_bins;
    d.angle = (float)(twopi / d.steps);
    d.laststep = (unsigned)std::ceil(d.steps * d.rotations_f);
    d.e1 = (float)(d.t_damp > 0 ? 2.0 / (d.fs * d.t_damp * d.steps) : 0);
    bool imp = false;
    if (c.gap != 0) {
        if (c.useCSR) imp = true;
        double radius = std::fabs(c.gap / 2);
        if (c.wallcond > 0 && c.wallsusc >= -1) imp = true;
        if (0 < c.collimator && c.collimator < radius) imp = true;
    }
    if (!c.impedance.empty()) imp = true;
    d.has_wake = imp;
    const double rf_phase_noise = std::max(0.0, c.rf_phase_spread / 360.0 * twopi);
    const double rf_ampl_noise = std::max(0.0, c.rf_ampl_spread);
    const double rf_mod_ampl = std::max(0.0, c.rf_mod_ampl / 360.0 * twopi);
    const double rf_mod_step = c.rf_mod_freq * d.dt;
    d.dynamic_rf = std::fpclassify(rf_phase_noise) == FP_NORMAL || std::fpclassify(rf_ampl_noise) == FP_NORMAL ||
                   (std::fpclassify(rf_mod_ampl) == FP_NORMAL && std::fpclassify(rf_mod_step) == FP_NORMAL);
    return d;
}

Schedule schedule(const Cfg& c, unsigned executed) {
    Schedule s;
    if (c.saveps == 0) s.ps_steps.push_back(0);
    unsigned outstepnr = 0;
    for (unsigned st = 0; st < executed; st++) {
        if (c.outstep > 0 && st % (unsigned)c.outstep == 0) {
            s.out_steps.push_back(st);
            if (c.saveps > 0 && outstepnr % (unsigned)c.saveps == 0) s.ps_steps.push_back(st);
            outstepnr++;
        }
    }
    s.out_steps.push_back(executed);
    s.ps_steps.push_back(executed);
    return s;
}

} // namespace sim
