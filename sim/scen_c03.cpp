// C03: the bunch centroid rotates by 2*pi/steps per step and the orbit closes.
// History oracle over real main() runs started from simulator-authored distributions.
#include "common.hpp"
#include <unistd.h>

namespace sim {
namespace {

struct Blob { double q0, p0, s1, s2, mix, dq, dp; int shape = 0; };   // shape 0: Gaussian(s), 1: uniform disc of radius 1.8 s1, 2: uniform square of half-width 1.5 s1, 3: two discs with empty columns between them (exact zeros outside)

static std::vector<float> blob_data(const Derived& d, unsigned n, const Blob& b) {
    std::vector<float> v((size_t)n * n);
    double sum = 0;
    for (unsigned x = 0; x < n; x++) for (unsigned y = 0; y < n; y++) {
        double q = d.q(x), p = d.p(y);
        double g1 = std::exp(-((q - b.q0) * (q - b.q0) + (p - b.p0) * (p - b.p0)) / (2 * b.s1 * b.s1));
        if (b.shape == 1) g1 = std::hypot(q - b.q0, p - b.p0) < 1.8 * b.s1 ? 1 : 0;
        else if (b.shape == 2) g1 = (std::fabs(q - b.q0) < 1.5 * b.s1 && std::fabs(p - b.p0) < 1.5 * b.s1) ? 1 : 0;
        else if (b.shape == 3) {   // two discs of radius s1, separated in position by a gap of at least three empty columns
            double half = b.s1 + 2.5 * (double)d.delta_q;
            g1 = (std::hypot(q - (b.q0 - half), p - b.p0) < b.s1 || std::hypot(q - (b.q0 + half), p - (b.p0 + b.dp)) < b.s1) ? 1 : 0;
        }
        double g2 = b.mix > 0 ? std::exp(-((q - b.q0 - b.dq) * (q - b.q0 - b.dq) + (p - b.p0 - b.dp) * (p - b.p0 - b.dp)) / (2 * b.s2 * b.s2)) : 0;
        double val = (1 - b.mix) * g1 / (b.s1 * b.s1) + b.mix * g2 / (b.s2 * b.s2);
        v[(size_t)x * n + y] = (float)val; sum += val;
    }
    double norm = 1.0 / (sum * (double)d.delta_q * (double)d.delta_p);
    for (auto& x : v) x = (float)(x * norm);
    return v;
}

struct C03 : Scenario {
    const char* id() const override { return "C03"; }
    long default_runs(const std::string& tier) const override { return tier == "quick" ? 32 : 2000; }
    const char* rule() const override {
        return "one evaluation = one step of one recorded centroid history: a seeded blob (Gaussian or two-Gaussian mixture, centroid up to 2 sigma "
               "off centre, clear of the border for the whole orbit) is written to a start file and transported by the real program without "
               "impedance and damping for one synchrotron period + 1 step, recording every step; each step is compared with the exact kick-drift "
               "recurrence, the first-order splitting bound around the exact rotation, the sense of rotation, the total phase advance and the "
               "closure of the orbit; 25% of the histories are cut by a SIGINT and continued from the results file; distinct_nontrivial "
               "counts distinct (RF model, interpolation, grid parity, shift class, steps bucket, blob kind, interrupted) keys";
    }
    const char* measure() const override { return "distinct (RF model, interpolation, grid parity, shift class, steps-per-period bucket, blob kind, interrupted) keys"; }
    std::vector<std::string> assumptions() const override {
        return {"interpolation order 1 is excluded: a one-point scheme cannot move charge by a fraction of a cell, the property has no content there",
                "tolerance tau_grid = max(2e-3, 0.02 cell) from the measured discretisation error (4e-6..9e-4 for grids 32-256), >= 3x head-room",
                "sinusoidal RF: amplitudes <= 2 sigma (nonlinearity (k q)^2/6 < 1e-3 for the ring parameters used)"};
    }

    Plan generate(uint64_t seed, long, const std::string& tier) const override {
        Rng r(seed);
        Plan p;
        Cfg c;
        c.grid = tier == "quick" ? r.range(24, 72) : r.range(24, 200);
        c.pssize = r.chance(0.5) ? 12 : std::round(r.uniform(10, 16) * 4) / 4;
        c.steps = r.chance(0.3) ? r.range(10, 40) : r.range(40, tier == "quick" ? 200 : 400);
        c.interp = r.pick(std::vector<long>{2, 3, 4, 4});
        c.linearRF = r.chance(0.6);
        c.renorm = -1; c.gap = 0; c.tdamp = 0; c.fptype = r.chance(0.5) ? 3 : 0;
        c.outstep = 1; c.saveps = r.chance(0.5) ? 0 : 5;
        c.clamp = r.chance(0.25);     // (accepted by the CPU maps without effect on this tree)
        c.padding = 2;
        if (r.chance(0.2)) c.fs = std::round(r.uniform(2e4, 8e4));
        if (r.chance(0.2)) c.H = (double)r.pick(std::vector<long>{100, 184, 30});
        if (r.chance(0.15)) { c.steps_per_rev = (double)c.steps * derive(c).fs / derive(c).f_rev; }   // the same number of steps per period, given per revolution
        c.rotations = (c.steps + 1 - 0.5) / (double)c.steps;
        Blob b;
        double delta = c.pssize / (c.grid - 1);
        for (int tries = 0; tries < 200; tries++) {
            if (r.chance(0.6)) { c.shiftx = r.chance(0.5) ? (double)r.range(-6, 6) : std::round(r.uniform(-6, 6) * 8) / 8; c.shifty = r.chance(0.5) ? (double)r.range(-6, 6) : std::round(r.uniform(-6, 6) * 8) / 8; if (r.chance(0.2)) c.shifty = c.shiftx; }
            else c.shiftx = c.shifty = 0;
            double amp = r.uniform(0.3, 2.0), ph = r.uniform(0, 2 * M_PI);
            b.q0 = amp * std::cos(ph); b.p0 = amp * std::sin(ph);
            b.s1 = r.uniform(0.5, 0.9); b.s2 = r.uniform(0.4, 0.8);
            b.mix = r.chance(0.4) ? r.uniform(0.2, 0.5) : 0;
            // "any distribution": a quarter of the starts have compact support with a sharp edge
            b.shape = (r.chance(0.3) && c.grid <= 110 && c.steps <= 150) ? (int)r.range(1, 3) : 0;
            if (b.shape) b.mix = 0;
            b.dq = r.uniform(-0.6, 0.6); b.dp = r.uniform(-0.6, 0.6);
            double theta = 2 * M_PI / c.steps;
            // "stays inside the grid" must hold for the numerically broadened blob too: linear interpolation diffuses
            // by up to delta^2/8 per map application (two maps per step); higher orders do not to this order
            double smax = std::max(b.s1, b.mix > 0 ? b.s2 : 0.0);
            double seff = std::sqrt(smax * smax + (c.interp == 2 ? (c.steps + 1) * delta * delta / 4 : 0));
            double reach = (amp + (b.mix > 0 ? 0.85 : 0)) * (1 + theta) + 4.6 * seff;
            if (b.shape == 3) reach = (amp + b.s1 + 2.5 * delta + 0.6) * (1 + theta) + 1.2 * b.s1 + (c.interp == 2 ? 4.6 * std::sqrt((c.steps + 1) * delta * delta / 4) : 0);   // (linear interpolation broadens by delta^2/8 per map)
            double half = c.pssize / 2 - std::max(std::fabs(c.shiftx), std::fabs(c.shifty)) * delta;
            // (sharp-edged shapes: the interpolation's ripples run ahead of the edge by several cells; they must not reach the border)
            if (half - reach >= 0.3 + (b.shape ? 3 * delta : 0) && std::min(b.s1, b.mix > 0 ? b.s2 : b.s1) / delta >= (b.shape ? 3.0 : 2.0)) break;
            if (tries > 60 && c.interp == 2) c.interp = 4;
            if (tries > 100) { c.shiftx = c.shifty = 0; c.pssize = 16; delta = c.pssize / (c.grid - 1); }
            if (tries > 150) { c.grid = std::max(c.grid, 48L); delta = c.pssize / (c.grid - 1); }
        }
        if (b.shape) { c.saveps = 1; }     // centre of charge of a sharp-edged shape is taken from the stored grids (plain sums), see run()
        c.startfile = "start.h5";
        c.to_plan(p);
        p.setd("b.q0", b.q0); p.setd("b.p0", b.p0); p.setd("b.s1", b.s1); p.setd("b.s2", b.s2); p.setd("b.mix", b.mix); p.setd("b.dq", b.dq); p.setd("b.dp", b.dp); p.seti("b.shape", b.shape);
        p.setu("entropy", r.u64());
        p.seti("cut", r.chance(0.25) ? r.range(1, c.steps) : -1);
        return p;
    }

    Outcome run(const Plan& plan, RunCtx& rc) const override {
        Outcome o;
        Cfg cfg = Cfg::from_plan(plan);
        Derived d = derive(cfg);
        unsigned n = (unsigned)cfg.grid;
        Blob b{plan.getd("b.q0"), plan.getd("b.p0"), plan.getd("b.s1"), plan.getd("b.s2"), plan.getd("b.mix"), plan.getd("b.dq"), plan.getd("b.dp"), (int)plan.geti("b.shape", 0)};
        {   // the generator's provisos, re-checked so that shrinking cannot leave the property's domain (blob resolved by the mesh,
            // inside the grid for the whole orbit)
            double delta = cfg.pssize / (cfg.grid - 1), theta0 = 2 * M_PI / derive(cfg).steps;
            double smin = std::min(b.s1, b.mix > 0 ? b.s2 : b.s1), smax = std::max(b.s1, b.mix > 0 ? b.s2 : 0.0);
            double seff = std::sqrt(smax * smax + (cfg.interp == 2 ? (derive(cfg).steps + 1) * delta * delta / 4 : 0));
            double amp = std::hypot(b.q0, b.p0);
            double reach = (amp + (b.mix > 0 ? 0.85 : 0)) * (1 + theta0) + 4.6 * seff;
            if (b.shape == 3) reach = (amp + b.s1 + 2.5 * delta + 0.6) * (1 + theta0) + 1.2 * b.s1 + (cfg.interp == 2 ? 4.6 * std::sqrt((derive(cfg).steps + 1) * delta * delta / 4) : 0);
            double half = cfg.pssize / 2 - std::max(std::fabs(cfg.shiftx), std::fabs(cfg.shifty)) * delta;
            if (!(half - reach >= 0.25 + (b.shape ? 2.9 * delta : 0) && smin / delta >= (b.shape ? 2.9 : 1.95))) { o.discard("start distribution not resolved by the mesh or not clear of the border (outside the property's provisos)"); return o; }
        }
        auto data = blob_data(d, n, b);
        if (!h5_write_f32(rc.workdir + "/start.h5", "/PhaseSpace/data", {1, n, n}, data)) { o.set_infra("cannot write start file"); return o; }
        uint64_t entropy = plan.getu("entropy");
        auto launch = [&](const Cfg& c, const std::string& tag, const std::vector<long>& sig, LaunchResult& r, H5Snap& s) {
            Launch l = make_launch(c, rc.workdir, tag, entropy, 0);
            l.rt.sigint_points = sig;
            r = run_launch(l); o.launches++; o.simsteps += r.sumi("steps_done");
            if (!r.exited || r.code != 0) { o.set_infra("launch " + tag + " failed: " + r.describe() + " " + tail(r.err) + tail(r.out, 200)); return false; }
            s = h5_read(rc.workdir + "/" + c.output);
            if (!s.ok) { o.set_infra("unreadable results of " + tag); return false; }
            o.mixfp(r.evhash()); o.mixfp(s.digest());
            return true;
        };
        std::vector<double> Q, P;
        // The recorded /BunchPosition and /EnergyAverage are Simpson-weighted moments; for a discontinuous shape those fluctuate by
        // up to ~0.4 cell as the edge moves over the mesh (a property of the quadrature, C09's business). For sharp-edged starts the
        // centre of charge is therefore taken from the stored phase spaces with plain sums, for which the transport is exact.
        auto centroids = [&](const H5Snap& s, std::vector<double>& q, std::vector<double>& pp) {
            if (!b.shape) { q = s.values("/BunchPosition/data"); pp = s.values("/EnergyAverage/data"); return; }
            auto ps = s.get(PS_DATA);
            q.clear(); pp.clear();
            if (!ps) return;
            size_t rl = ps->rowlen();
            for (size_t rec = 0; rec < ps->rows(); rec++) {
                double sw = 0, sq = 0, sp = 0;
                for (unsigned x = 0; x < n; x++) for (unsigned y = 0; y < n; y++) { double w = ps->at(rec * rl + (size_t)x * n + y); sw += w; sq += w * d.q(x); sp += w * d.p(y); }
                q.push_back(sq / sw); pp.push_back(sp / sw);
            }
        };
        long cut = plan.geti("cut", -1);
        if (cut < 0) {
            LaunchResult r; H5Snap s;
            if (!launch(cfg, "run", {}, r, s)) return o;
            centroids(s, Q, P);
        } else {
            // leg 1 is interrupted at the end of step `cut` (hook index found by a dry launch), leg 2 continues from the file
            Cfg c1 = cfg; c1.output = "leg1.h5";
            Launch dl = make_launch(c1, rc.workdir, "dry", entropy, 0); dl.rt.text_log = true;
            { Cfg cd = c1; cd.output = "dry.h5"; dl.args = cd.args(); }
            LaunchResult rd = run_launch(dl); o.launches++;
            std::vector<long> idxs; long idx = 0;
            for (auto& line : split(unesc(rd.sum["text"]), '\n')) { if (!starts_with(line, "P ")) continue; if (line == "P step_done") idxs.push_back(idx); idx++; }
            if ((long)idxs.size() < cut) { o.set_infra("dry launch too short"); return o; }
            LaunchResult r1, r2; H5Snap s1, s2;
            if (!launch(c1, "leg1", {idxs[(size_t)cut - 1]}, r1, s1)) return o;
            if (r1.sumi("steps_done") != cut) { o.set_infra("leg 1 executed " + std::to_string(r1.sumi("steps_done")) + " steps"); return o; }
            o.fault("sigint_point");
            Cfg c2 = cfg; c2.startfile = "leg1.h5"; c2.output = "leg2.h5";
            long rest = (long)d.laststep - cut;
            c2.rotations = rest > 0 ? (rest - 0.5) / d.steps : 0;
            if (!launch(c2, "leg2", {}, r2, s2)) return o;
            centroids(s1, Q, P);
            std::vector<double> Q2, P2; centroids(s2, Q2, P2);
            // leg 2's first record repeats the state leg 1 ended with
            for (size_t i = 1; i < Q2.size(); i++) { Q.push_back(Q2[i]); P.push_back(P2[i]); }
            o.probe("reach.cut_and_continued");
        }
        unsigned N = d.laststep;
        if (Q.size() != N + 1 || P.size() != N + 1) { o.set_infra("history has " + std::to_string(Q.size()) + " records for " + std::to_string(N) + " steps"); return o; }
        // ---- oracles
        const double theta = (double)d.angle;
        const double kick = cfg.linearRF ? std::tan(theta) : theta;     // small-amplitude focusing of the sinusoidal model is theta itself
        const double delta = d.delta_q;
        // calibrated on 1440 seeded histories (grids 24-200, 10-400 steps/period, blobs resolved by >= 2 cells per sigma):
        // worst observed deviation 0.005 cell (linear, with the diffusion proviso), 0.013 cell (quadratic), 0.004 cell (cubic)
        const double tau = std::max(2e-3, (cfg.interp == 2 ? 0.03 : 0.04) * delta);
        const double c0 = std::hypot(Q[0], P[0]);
        std::string ctx = " [" + std::string(cfg.linearRF ? "linear" : "sinusoidal") + " RF, grid " + std::to_string(n) + ", " + std::to_string(cfg.steps) + " steps/period, interpolation " + std::to_string(cfg.interp) +
                          ", shifts " + fmt_g(cfg.shiftx, 4) + "," + fmt_g(cfg.shifty, 4) + ", start (" + fmt_g(Q[0], 5) + "," + fmt_g(P[0], 5) + ")" + (cut >= 0 ? ", cut at step " + std::to_string(cut) : "") + "]";
        // the start file itself must have the centroid we asked for
        o.checks++;
        double eq0 = b.q0 + b.mix * b.dq * (b.mix > 0 ? 1 : 0), ep0 = b.p0 + b.mix * b.dp * (b.mix > 0 ? 1 : 0);
        if (b.mix > 0) { double w1 = (1 - b.mix), w2 = b.mix; eq0 = (w1 * b.q0 + w2 * (b.q0 + b.dq)) / (w1 + w2); ep0 = (w1 * b.p0 + w2 * (b.p0 + b.dp)) / (w1 + w2); }
        if (b.shape) {   // centre of the discretised shape (plain sums over the authored data)
            double sw = 0, sq = 0, sp = 0;
            for (unsigned x = 0; x < n; x++) for (unsigned y = 0; y < n; y++) { double w = data[(size_t)x * n + y]; sw += w; sq += w * d.q(x); sp += w * d.p(y); }
            eq0 = sq / sw; ep0 = sp / sw;
        }
        if (std::hypot(Q[0] - eq0, P[0] - ep0) > 0.02 + tau) o.fail("C03.loaded_centroid", "first record has centroid (" + fmt_g(Q[0], 6) + "," + fmt_g(P[0], 6) + ") but the start distribution was authored at (" + fmt_g(eq0, 6) + "," + fmt_g(ep0, 6) + ")" + ctx);
        double mq = Q[0], mp = P[0];      // (a) recurrence model
        const double mu = std::acos(std::max(-1.0, 1 - theta * kick / 2));   // phase advance per step of a kick-drift map: tilt ~theta/2 plus a slip of (mu-theta) per step
        double phase_total = 0, maxdev = 0, maxdevr = 0;
        // slack for the sinusoidal model: its kick is theta*sin(k q)/k, i.e. relative nonlinearity (k q)^2/6 per step, which can
        // add up over the period; k = RF phase per natural bunch length
        const double krf = d.bl / 2.99792458e8 * d.f_RF * 2 * M_PI;
        // nl: slack of the statement-level clauses (rotation, phase advance, closure), which compare with the ideal linear rotation and
        // therefore see the amplitude detuning of the sinusoidal model; nl_model: slack of the recurrence clause, whose model is exact
        double nl = cfg.linearRF ? 0 : 3 * 2 * M_PI * c0 * std::pow(krf * (c0 + std::max(b.s1, b.s2)), 2) / 6 + 1e-3 * c0;
        double nl_model = nl;
        // Sinusoidal RF: the recurrence model transports the authored start distribution itself (every grid point a weighted
        // particle) through the kick p += A (sin(k q + phi_s) - sin phi_s), A = T_step/T_rev * V_RF / (sigma_E E_0), and the drift
        // q -= theta p, in double. Nonlinearity, the synchronous phase (focusing ~ cos phi_s, asymmetric potential) and the shape of
        // the blob are then part of the model instead of a slack (found by the thorough tier: a 0.4 % effect of phi_s exceeded it).
        std::vector<double> MQ(N + 1, 0.0), MP(N + 1, 0.0);
        if (!cfg.linearRF) {
            const double A = d.revolutionpart * cfg.VRF / d.dE, phis = std::asin(d.V0 / cfg.VRF);
            std::vector<double> eq, ep, ew;
            double wmax = 0; for (float v : data) wmax = std::max(wmax, (double)v);
            double sw = 0, cq = 0, cp = 0;
            for (unsigned x = 0; x < n; x++) for (unsigned y = 0; y < n; y++) { double w = data[(size_t)x * n + y]; if (w < 1e-7 * wmax) continue; eq.push_back(d.q(x)); ep.push_back(d.p(y)); ew.push_back(w); sw += w; cq += w * d.q(x); cp += w * d.p(y); }
            cq /= sw; cp /= sw;
            for (size_t i = 0; i < eq.size(); i++) { eq[i] += Q[0] - cq; ep[i] += P[0] - cp; }     // start from the recorded centroid
            MQ[0] = Q[0]; MP[0] = P[0];
            for (unsigned k = 1; k <= N; k++) {
                double aq = 0, ap = 0;
                for (size_t i = 0; i < eq.size(); i++) { ep[i] += A * (std::sin(krf * eq[i] + phis) - std::sin(phis)); eq[i] -= theta * ep[i]; aq += ew[i] * eq[i]; ap += ew[i] * ep[i]; }
                MQ[k] = aq / sw; MP[k] = ap / sw;
            }
            nl_model = 2e-4 * c0;
            o.hints["slope"] = fmt_g(A * krf * std::cos(phis) / theta, 8);
        }
        {   // statistics over the whole history (independent of where a clause fails first)
            double aq = Q[0], ap = P[0];
            for (unsigned k = 1; k <= N; k++) { ap = ap + kick * aq; aq = aq - theta * ap; if (!cfg.linearRF) { aq = MQ[k]; ap = MP[k]; } maxdev = std::max(maxdev, std::hypot(Q[k] - aq, P[k] - ap)); }
        }
        for (unsigned k = 1; k <= N; k++) {
            o.checks++;
            mp = mp + kick * mq;
            mq = mq - theta * mp;
            if (!cfg.linearRF) { mq = MQ[k]; mp = MP[k]; }
            double dev = std::hypot(Q[k] - mq, P[k] - mp);
            maxdev = std::max(maxdev, dev);
            if (dev > tau + nl_model) { o.hints["step"] = std::to_string(k); o.fail("C03.kick_drift_recurrence", "step " + std::to_string(k) + ": centroid (" + fmt_g(Q[k], 7) + "," + fmt_g(P[k], 7) + ") but kick p+=tan(theta)q, drift q-=theta p from the first record gives (" + fmt_g(mq, 7) + "," + fmt_g(mp, 7) + "); deviation " + fmt_g(dev, 3) + " > " + fmt_g(tau + nl_model, 3) + ctx); break; }
            // (b) exact rotation (counter-clockwise in (q,p): q' = q cos - p sin, p' = q sin + p cos), first-order splitting bound
            double a = k * theta;
            double rq = Q[0] * std::cos(a) - P[0] * std::sin(a), rp = Q[0] * std::sin(a) + P[0] * std::cos(a);
            double devr = std::hypot(Q[k] - rq, P[k] - rp);
            maxdevr = std::max(maxdevr, devr);
            if (devr > (0.75 * std::tan(theta) + k * std::fabs(mu - theta)) * c0 + tau + nl) { o.hints["step"] = std::to_string(k); o.fail("C03.rotation_by_theta", "step " + std::to_string(k) + ": centroid (" + fmt_g(Q[k], 7) + "," + fmt_g(P[k], 7) + ") but exact rotation by " + std::to_string(k) + "*2pi/" + std::to_string(cfg.steps) + " gives (" + fmt_g(rq, 7) + "," + fmt_g(rp, 7) + "); deviation " + fmt_g(devr, 3) + " exceeds the splitting bound " + fmt_g((0.75 * std::tan(theta) + k * std::fabs(mu - theta)) * c0 + tau + nl, 3) + ctx); break; }
            // per-step phase advance (sense and size)
            double cr = Q[k - 1] * P[k] - P[k - 1] * Q[k], dt = Q[k - 1] * Q[k] + P[k - 1] * P[k];
            phase_total += std::atan2(cr, dt);
        }
        if (o.fails.empty()) {
            o.checks += 2;
            if (std::fabs(phase_total - (N * theta)) > theta + N * std::fabs(mu - theta) + 2 * (tau + nl) / std::max(c0, 0.1)) o.fail("C03.phase_advance", "total phase advance over " + std::to_string(N) + " steps is " + fmt_g(phase_total, 7) + " rad, expected " + fmt_g(N * theta, 7) + " (counter-clockwise in (q,p))" + ctx);
            unsigned per = (unsigned)cfg.steps;
            double clos = std::hypot(Q[per] - Q[0], P[per] - P[0]);
            // a kick-drift map advances its (slightly tilted) invariant ellipse by mu, not theta, per step: after one period
            // the orbit misses its start by the accumulated slip per*(mu-theta) ~ 1.3 theta^2 (second order in the step)
            double closetol = per * std::fabs(mu - theta) * (1 + theta) * c0 + tau + nl;
            if (clos > closetol) o.fail("C03.closure", "after one period the centroid is " + fmt_g(clos, 4) + " away from its start (allowed " + fmt_g(closetol, 4) + ")" + ctx);
        }
        std::string sh = (cfg.shiftx == 0 && cfg.shifty == 0) ? "centred" : cfg.shiftx == cfg.shifty ? "eq" : "uneq";
        std::string sb = cfg.steps < 40 ? "few" : cfg.steps < 150 ? "mid" : "many";
        o.probe(std::string("cls.") + (cfg.linearRF ? "lin" : "sin") + ".ip" + std::to_string(cfg.interp) + (n % 2 ? ".odd" : ".even") + "." + sh + "." + sb + (b.mix > 0 ? ".mix" : b.shape == 1 ? ".disc" : b.shape == 2 ? ".square" : b.shape == 3 ? ".twodiscs" : ".gauss") + (cut >= 0 ? ".cut" : ""));
        if (sh == "uneq") o.probe("reach.unequal_shifts");
        if (n % 2) o.probe("reach.odd_grid");
        o.simperiods = o.simsteps / d.steps;
        o.nontrivial = true;
        o.sample = ctx + " maxdev/delta=" + fmt_g(maxdev / delta, 4) + " maxdev=" + fmt_g(maxdev, 4) + " maxrot/(theta*c0)=" + fmt_g(maxdevr / (theta * c0), 4) + (o.hints.count("slope") ? " slope/theta=" + o.hints["slope"] : "");
        return o;
    }

    std::vector<Plan> shrink_candidates(const Plan& p, const Outcome&) const override {
        std::vector<Plan> out;
        if (p.geti("cut", -1) >= 0) { Plan q = p; q.seti("cut", -1); out.push_back(q); }
        if (p.getd("b.mix") > 0) { Plan q = p; q.setd("b.mix", 0); out.push_back(q); }
        Cfg c = Cfg::from_plan(p);
        auto with = [&](std::function<void(Cfg&)> f) { Cfg d = c; Plan q = p; f(d); d.to_plan(q); if (!(q == p)) out.push_back(q); };
        with([](Cfg& d) { d.shiftx = d.shifty = 0; });
        with([](Cfg& d) { d.shifty = 0; });
        with([](Cfg& d) { d.shiftx = 0; });
        with([](Cfg& d) { d.linearRF = true; });
        with([](Cfg& d) { d.interp = 4; d.fptype = 3; d.saveps = 0; d.pssize = 12; });
        with([](Cfg& d) { if (d.steps > 20) { d.steps = d.steps / 2; d.rotations = (d.steps + 1 - 0.5) / (double)d.steps; } });
        with([](Cfg& d) { if (d.grid > 40) d.grid = 32 + d.grid % 2; });
        return out;
    }
};

ScenarioRegistrar reg(new C03());

} // namespace
} // namespace sim
