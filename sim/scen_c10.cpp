// C10: each record of the results file describes one instant, consistently.
// Whole-program runs over the option swarm (optionally ended by SIGINT); every record of the durable
// file is checked against a reference model of schedule, axes, projections, moments, wake convolution,
// CSR sum and unit factors, re-derived independently in double precision.
#include "common.hpp"
#include "IO/Display.hpp"
#include "Z/ImpedanceFactory.hpp"
#include <complex>
#include <cstring>

namespace sim {
namespace {

struct C10 : Scenario {
    const char* id() const override { return "C10"; }
    long default_runs(const std::string& tier) const override { return tier == "quick" ? 160 : 20000; }
    const char* rule() const override {
        return "one evaluation = one oracle comparison on one record of one seeded whole-program run (structure, axes, projections, moments, "
               "wake convolution, CSR sum, per-bunch rows, unit attributes); runs sample the full option swarm and 20% are ended by a "
               "SIGINT at a seeded hook point; distinct_nontrivial counts distinct (bunches, wake kind, shift?, renorm mode, outstep class, "
               "SavePhaseSpace, ended-by) tuples";
    }
    const char* measure() const override { return "distinct configuration/schedule classes of the runs whose records were checked"; }
    std::vector<std::string> assumptions() const override {
        return {"projection = the program's own Simpson-type weights (h/3 * {1,4,2,...,1}); moments = plain sums times the cell size divided by that integral",
                
                "the CSR spectrum is checked against its own sum only: the radiation impedance is not stored in the file",
                "padding >= 2 (with less, HDF5File cannot create its datasets and the program aborts without a results file)"};
    }

    Plan generate(uint64_t seed, long, const std::string& tier) const override {
        Rng r(seed);
        Plan p;
        SwarmOpts o;
        o.max_grid = tier == "quick" ? 32 : 56;
        o.max_rot_steps = tier == "quick" ? 12 : 30;
        Cfg c = swarm_cfg(r, o);
        if (r.chance(0.5)) vary_machine(r, c);
        // distinct currents make per-bunch rows distinguishable
        if (c.currents.size() > 1) {
            double base = 0.7e-3;
            for (auto& cur : c.currents) if (cur > 0) { cur = base; base *= 1.9; }
        }
        // two transform lengths live in one run (the padded single profile of the radiation field, the padded train of the wake
        // field); usually the train is longer. A fifth of the multi-bunch runs with a wake choose padding / harmonic number so that
        // the two lengths coincide, a third so that the single profile is the LONGER one.
        if (c.currents.size() > 1 && derive(c).has_wake && r.chance(0.5)) {
            bool equal = r.chance(0.6);
            Cfg best = c; bool found = false;
            for (int t = 0; t < 60 && !found; t++) {
                Cfg k = c;
                k.H = (double)r.pick(std::vector<long>{50, 184, 400, 800, 1200, r.range(100, 2000)});
                k.roundpad = r.chance(0.7);
                for (double pad : {2.0, 3.0, 4.0, 6.0, 8.0, 12.0, 16.0, 24.0, 32.0}) {
                    k.padding = pad;
                    Derived dk = derive(k);
                    if (dk.spacing_ps < 1.0 || dk.wake_nmax > 16000 || dk.padded_bins > 16000) continue;
                    if (equal ? dk.padded_bins == dk.wake_nmax : dk.padded_bins > dk.wake_nmax) { best = k; found = true; break; }
                }
            }
            if (found) { c = best; p.seti("lencls", equal ? 1 : 2); }
        }
        if (r.chance(0.3)) { c.tracking = "track.txt"; plan_file(p, "track.txt", gen_tracking(r, c, r.range(1, 4))); }
        if (r.chance(0.15)) { c.impedance = "imp.dat"; Derived d = derive(c); plan_file(p, "imp.dat", gen_impedance(r, (long)d.wake_nmax, 50)); }
        if (c.currents.size() == 1 && r.chance(0.2)) p.seti("fromfile", r.range(2, 9));
        c.to_plan(p);
        p.setu("entropy", r.u64());
        p.seti("planner", 0);
        p.seti("sigint", r.chance(0.2) ? r.range(0, 100000) : -1);
        return p;
    }

    static double rel(double a, double b) { return std::fabs(a - b) / std::max(std::fabs(b), 1e-300); }

    Outcome run(const Plan& plan, RunCtx& rc) const override {
        Outcome o;
        Cfg cfg = Cfg::from_plan(plan);
        Derived d = derive(cfg);
        stage_inputs(plan, rc.workdir);
        uint64_t entropy = plan.getu("entropy");
        long sigint = plan.geti("sigint", -1);
        if (plan.geti("fromfile", 0) > 0) {
            // the run continues from the results file of an earlier leg: its records, record 0 included, describe the loaded grid
            Cfg c0 = cfg; c0.output = "pre.h5"; c0.outstep = 1; c0.saveps = 1; c0.tracking = "";
            c0.rotations = (plan.geti("fromfile") - 0.5) / d.steps;
            Launch l0 = make_launch(c0, rc.workdir, "pre", entropy, (int)plan.geti("planner"));
            LaunchResult r0 = run_launch(l0); o.launches++;
            if (!r0.exited || r0.code != 0) { o.set_infra("earlier leg failed: " + r0.describe() + " " + tail(r0.err)); return o; }
            cfg.startfile = "pre.h5";
            o.probe("reach.starts_from_results_file");
        }
        Launch l = make_launch(cfg, rc.workdir, "run", entropy, (int)plan.geti("planner"));
        if (sigint >= 0) {
            // interpret modulo the number of hook hits of the uninterrupted run
            Launch dry = l; dry.tag = "dry";
            Cfg c0 = cfg; c0.output = "dry.h5"; dry.args = c0.args();
            LaunchResult r0 = run_launch(dry);
            o.launches++;
            long H = r0.sumi("point_hits");
            if (!r0.exited || r0.code != 0 || H <= 0) { o.set_infra("dry run failed: " + r0.describe() + tail(r0.err)); return o; }
            l.rt.sigint_points = {sigint % H};
        }
        LaunchResult r = run_launch(l);
        o.launches++;
        unsigned executed = (unsigned)r.sumi("steps_done");
        o.simsteps = executed; o.simperiods = executed / d.steps;
        if (!r.exited || r.code != 0) { o.set_infra("run failed: " + r.describe() + " " + tail(r.err)); return o; }
        if (!r.raised.empty()) o.fault("sigint_point");
        H5Snap s = h5_read(rc.workdir + "/" + cfg.output);
        if (!s.ok) { o.fail("C10.readable", "results file unreadable: " + s.error + " stdout " + tail(r.out)); return o; }
        o.mixfp(r.evhash()); o.mixfp(s.digest());
        const unsigned n = (unsigned)cfg.grid, nb = d.nbunches;

        // ---- structure: record counts and time axes
        o.checks++;
        for (auto& pr : structure_problems(s, cfg, d, executed)) { o.fail("C10.structure", pr); break; }

        // ---- axes
        o.checks += 3;
        {
            auto z = s.f32("/Info/AxisValues_z"), e = s.f32("/Info/AxisValues_E");
            if (z.size() != n || e.size() != n) o.fail("C10.axes", "axis lengths " + std::to_string(z.size()) + "," + std::to_string(e.size()) + " for grid " + std::to_string(n));
            else for (unsigned i = 0; i < n; i++) {
                if (z[i] != d.q(i)) { o.fail("C10.axis_z", "AxisValues_z[" + std::to_string(i) + "]=" + fmt_g(z[i], 9) + " but the grid used has " + fmt_g(d.q(i), 9)); break; }
                if (e[i] != d.p(i)) { o.fail("C10.axis_E", "AxisValues_E[" + std::to_string(i) + "]=" + fmt_g(e[i], 9) + " but the grid used has " + fmt_g(d.p(i), 9)); break; }
            }
            auto f = s.f32("/Info/AxisValues_f");
            size_t nmax = d.padded_bins;
            float fmaxr = 1.0f / d.delta_q;
            float df = (fmaxr - 0.0f) / float((unsigned)nmax - 1);
            if (f.size() != nmax / 2) o.fail("C10.axis_f", "AxisValues_f has " + std::to_string(f.size()) + " entries, expected " + std::to_string(nmax / 2));
            else for (size_t i = 0; i < f.size(); i++) if (f[i] != 0.0f + float((unsigned)i) * df) { o.fail("C10.axis_f", "AxisValues_f[" + std::to_string(i) + "]=" + fmt_g(f[i], 9) + " expected " + fmt_g(float((unsigned)i) * df, 9)); break; }
            auto bn = s.values("/Info/BucketNumbers");
            if (bn.size() != d.bucketnumbers.size()) o.fail("C10.buckets", "BucketNumbers length");
            else for (size_t i = 0; i < bn.size(); i++) if ((unsigned)bn[i] != d.bucketnumbers[i]) o.fail("C10.buckets", "BucketNumbers[" + std::to_string(i) + "]");
        }

        // ---- units
        {
            const double cl = 2.99792458e8;
            double meter = (double)(float)d.bl, ev = (double)(float)d.dE;
            double hertz = (double)(float)(cl / (double)(float)d.bl);
            float volts_f = d.delta_p * (float)d.dE / (float)d.revolutionpart;
            double wph = 2 * 1.0 * d.Ib * d.Ib / d.f_rev;
            std::vector<std::pair<std::string, double>> exp = {
                {"/Info/AxisValues_z@Meter", meter}, {"/Info/AxisValues_z@Second", meter / cl},
                {"/Info/AxisValues_E@ElectronVolt", ev}, {"/Info/AxisValues_f@Hertz", hertz},
                {"/Info/AxisValues_t@Second", d.t_sync}, {"/Info/AxisValues_t@Turn", d.t_sync * d.f_rev},
                {"/PhaseSpace/axis0@Second", d.t_sync}, {"/PhaseSpace/axis0@Turn", d.t_sync * d.f_rev},
                {"/BunchPopulation/data@Ampere", d.Ib}, {"/BunchPopulation/data@Coulomb", d.Qb},
                {"/BunchProfile/data@AmperePerNBL", d.Ib}, {"/BunchProfile/data@CoulombPerNBL", d.Qb},
                {"/EnergyProfile/data@AmperePerNES", d.Ib}, {"/EnergyProfile/data@CoulombPerNES", d.Qb},
                {"/PhaseSpace/data@AmperePerNBLPerNES", d.Ib}, {"/PhaseSpace/data@CoulombPerNBLPerNES", d.Qb},
                {"/BunchLength/data@Meter", meter}, {"/BunchLength/data@Second", meter / cl},
                {"/BunchPosition/data@Meter", meter}, {"/BunchPosition/data@Second", meter / cl},
                {"/EnergySpread/data@ElectronVolt", ev}, {"/EnergyAverage/data@ElectronVolt", ev},
                {"/WakePotential/data@Volt", (double)volts_f},
                {"/CSR/Spectrum/data@WattPerHertz", wph}, {"/CSR/Intensity/data@Watt", wph * hertz}};
            if (d.has_wake) exp.push_back({"/Impedance/data@Ohm", 1.0});
            for (auto& e : exp) {
                o.checks++;
                auto a = s.attr(e.first);
                if (!a) { o.fail("C10.units", "attribute " + e.first + " missing"); continue; }
                double tol = e.first == "/WakePotential/data@Volt" ? 3e-7 : 1e-12;
                if (!(rel(a->at(0), e.second) <= tol)) o.fail("C10.units", e.first + " = " + fmt_g(a->at(0)) + " but the machine parameters imply " + fmt_g(e.second));
            }
        }

        // ---- content of every record
        auto tax = s.f32(TIME_AXIS), pax = s.f32(PS_AXIS);
        auto prof = s.f32("/BunchProfile/data"), eprof = s.f32("/EnergyProfile/data"), pop = s.f32("/BunchPopulation/data");
        auto pos = s.f32("/BunchPosition/data"), len = s.f32("/BunchLength/data"), eav = s.f32("/EnergyAverage/data"), esp = s.f32("/EnergySpread/data");
        auto ps = s.f32(PS_DATA), wake = s.f32("/WakePotential/data"), spec = s.f32("/CSR/Spectrum/data"), inten = s.f32("/CSR/Intensity/data");
        size_t nrec = tax.size();
        bool sizes_ok = prof.size() == nrec * nb * n && eprof.size() == nrec * nb * n && pop.size() == nrec * nb && pos.size() == nrec * nb &&
                        len.size() == nrec * nb && eav.size() == nrec * nb && esp.size() == nrec * nb && ps.size() == pax.size() * nb * n * n;
        if (!sizes_ok) { o.fail("C10.structure", "dataset shapes do not match (records, bunches, grid)"); return finish(o, cfg, d, r, plan); }
        // Simpson-type weights as defined by the program
        std::vector<double> ws(n);
        {
            double h03 = (double)d.delta_q / 3.0, dc = 1;
            ws[0] = h03;
            for (unsigned x = 1; x + 1 < n; x++) { ws[x] = h03 * (3.0 + dc); dc = -dc; }
            ws[n - 1] = h03;
        }
        // impedance for the wake check
        auto zre = s.f32("/Impedance/data/real"), zim = s.f32("/Impedance/data/imag");
        const size_t N = d.wake_nmax;
        double wakescale = 0;
        if (d.has_wake) {
            const double cl = 2.99792458e8;
            wakescale = d.Ib * d.dt * cl / (double)(float)d.bl / ((double)d.delta_p * cfg.sE * cfg.E0) / (double)N;
            if (zre.size() != N / 2 || zim.size() != N / 2) o.fail("C10.structure", "stored impedance has " + std::to_string(zre.size()) + " values, transform length " + std::to_string(N));
        }
        double drift_seen = 0;
        for (size_t k = 0; k < nrec; k++) for (unsigned b = 0; b < nb; b++) drift_seen = std::max(drift_seen, std::fabs((double)pop[k * nb + b] / d.shares[b] - 1));
        float dfreq = (1.0f / d.delta_q) / float((unsigned)d.padded_bins - 1);
        // Re Z of the radiation impedance at bin nmax/2 (only used to recognise the known Nyquist-bin finding exactly)
        double zrad_mid = -1, zrad_max = 0;
        {
            const double cl = 2.99792458e8;
            vfps::Display::silent_mode = true;
            auto zr = vfps::makeImpedance(d.padded_bins, nullptr, d.fmax, d.R_bend, d.f_rev, (cfg.gap > 0) ? cfg.gap : -1);
            vfps::Display::silent_mode = false;
            (void)cl;
            if (zr && zr->nFreqs() > d.padded_bins / 2) { zrad_mid = (*zr)[d.padded_bins / 2].real(); for (size_t i = 0; i <= d.padded_bins / 2; i++) zrad_max = std::max(zrad_max, (double)(*zr)[i].real()); }
        }
        Schedule sch = schedule(cfg, executed);
        for (size_t k = 0; k < nrec; k++) {
            unsigned step = k < sch.out_steps.size() ? sch.out_steps[k] : 0;
            bool renorm_step = cfg.renorm > 0 && step % (unsigned)cfg.renorm == 0;
            if (renorm_step) o.probe("reach.record_on_renormalisation_step");
            std::string at = "record " + std::to_string(k) + " (t=" + fmt_g(tax[k], 6) + ")";
            // phase space of the same instant (last record with that time: the final one when two share t)
            long pk = -1;
            for (size_t j = 0; j < pax.size(); j++) if (f2u(pax[j]) == f2u(tax[k])) pk = (long)j;
            for (unsigned b = 0; b < nb; b++) {
                const float* P = &prof[(k * nb + b) * n];
                const float* E = &eprof[(k * nb + b) * n];
                double pmax = 0, emax = 0;
                for (unsigned i = 0; i < n; i++) { pmax = std::max(pmax, (double)std::fabs(P[i])); emax = std::max(emax, (double)std::fabs(E[i])); }
                if (pk >= 0) {
                    o.probe("reach.record_with_phase_space");
                    const float* F = &ps[((size_t)pk * nb + b) * n * n];
                    o.checks += 2;
                    // Known finding (see known_findings.json): with SavePhaseSpace=0 the extra phase-space record at t=0 is written before
                    // the loop, i.e. before the renormalisation of step 0 (RenormalizeCharge n>0), while the profiles of record 0 are
                    // written after it. When the start distribution does not carry unit charge (a continued run), the two differ by
                    // exactly that factor. Identified narrowly: record 0, SavePhaseSpace=0, RenormalizeCharge>0, and profile AND energy
                    // profile equal the projections times ONE common factor s != 1; anything else stays a projection violation.
                    bool known_t0 = false;
                    if (k == 0 && cfg.saveps == 0 && cfg.renorm > 0) {
                        std::vector<double> px(n, 0.0), py(n, 0.0);
                        double sp = 0, sproj = 0;
                        for (unsigned x = 0; x < n; x++) for (unsigned y = 0; y < n; y++) { px[x] += (double)F[x * n + y] * ws[y]; py[y] += (double)F[x * n + y] * ws[x]; }
                        for (unsigned x = 0; x < n; x++) { sp += P[x]; sproj += px[x]; }
                        double sc = sproj != 0 ? sp / sproj : 1;
                        bool uniform = std::fabs(sc - 1) > 2e-6 && std::fabs(sc - 1) < 0.5;
                        for (unsigned x = 0; x < n && uniform; x++) if (std::fabs(sc * px[x] - P[x]) > 1e-5 * pmax + 1e-12 || std::fabs(sc * py[x] - E[x]) > 1e-5 * emax + 1e-12) uniform = false;
                        if (uniform) {
                            known_t0 = true;
                            o.fail("C10.initial_ps_record_before_step0_renormalisation", at + ": the phase space stored for t=0 is the start distribution before the renormalisation of step 0, the profiles of record 0 are after it (common factor " + fmt_g(sc, 9) + ")");
                        }
                    }
                    if (!known_t0)
                    for (unsigned x = 0; x < n; x++) {
                        double sx = 0;
                        for (unsigned y = 0; y < n; y++) sx += (double)F[x * n + y] * ws[y];
                        if (std::fabs(sx - P[x]) > 1e-5 * pmax + 1e-12) { o.fail("C10.profile_is_projection", at + " bunch " + std::to_string(b) + ": BunchProfile[" + std::to_string(x) + "]=" + fmt_g(P[x], 9) + " but the stored phase space projects to " + fmt_g(sx, 9)); break; }
                    }
                    if (!known_t0)
                    for (unsigned y = 0; y < n; y++) {
                        double sy = 0;
                        for (unsigned x = 0; x < n; x++) sy += (double)F[x * n + y] * ws[x];
                        if (std::fabs(sy - E[y]) > 1e-5 * emax + 1e-12) { o.fail("C10.energyprofile_is_projection", at + " bunch " + std::to_string(b) + ": EnergyProfile[" + std::to_string(y) + "]=" + fmt_g(E[y], 9) + " but the stored phase space projects to " + fmt_g(sy, 9)); break; }
                    }
                }
                // moments of the stored profiles
                double fill = 0; for (unsigned i = 0; i < n; i++) fill += (double)P[i] * ws[i];
                o.checks += 5;
                if (std::fabs(fill - pop[k * nb + b]) > 1e-5 * std::fabs(fill) + 1e-9) o.fail("C10.population", at + " bunch " + std::to_string(b) + ": BunchPopulation=" + fmt_g(pop[k * nb + b], 9) + " but the stored profile integrates to " + fmt_g(fill, 9));
                {
                    // rows carry "that bunch": population/share must be the same for all bunches (charge may be lost at the
                    // grid border, equally for equal shapes); judged only while most of the charge is still there
                    bool intact = true;
                    for (unsigned c2 = 0; c2 < nb; c2++) if (std::fabs(pop[k * nb + c2] / d.shares[c2] - 1) > 0.2) intact = false;
                    unsigned nearest = b; double best = 1e300;
                    for (unsigned c2 = 0; c2 < nb; c2++) { double dd = std::fabs(pop[k * nb + b] - d.shares[c2]); if (dd < best) { best = dd; nearest = c2; } }
                    bool distinct = true;
                    for (unsigned c2 = 0; c2 < nb; c2++) if (c2 != b && std::fabs(d.shares[c2] / d.shares[b] - 1) < 0.5) distinct = false;
                    // judged while no bunch has lost more than 20 % (different currents legitimately lose differently at the border)
                    if (intact && distinct && nearest != b) o.fail("C10.bunch_rows", at + ": row " + std::to_string(b) + " holds population " + fmt_g(pop[k * nb + b], 6) + ", which is bunch " + std::to_string(nearest) + "'s share of the filling (" + fmt_g(d.shares[nearest], 6) + "), not its own (" + fmt_g(d.shares[b], 6) + ")");
                }
                double mq = 0, mp = 0;
                for (unsigned i = 0; i < n; i++) { mq += (double)P[i] * d.q(i); mp += (double)E[i] * d.p(i); }
                mq *= (double)d.delta_q / fill; mp *= (double)d.delta_p / fill;
                double vq = 0, vp = 0;
                for (unsigned i = 0; i < n; i++) { vq += (double)P[i] * std::pow(d.q(i) - mq, 2); vp += (double)E[i] * std::pow(d.p(i) - mp, 2); }
                vq *= (double)d.delta_q / fill; vp *= (double)d.delta_p / fill;
                double tolm = 2e-5 * (double)d.pqsize;
                if (std::fabs(mq - pos[k * nb + b]) > tolm) o.fail("C10.moments", at + " bunch " + std::to_string(b) + ": BunchPosition=" + fmt_g(pos[k * nb + b], 9) + " but the stored profile has mean " + fmt_g(mq, 9));
                if (std::fabs(std::sqrt(std::max(vq, 0.0)) - len[k * nb + b]) > tolm) o.fail("C10.moments", at + " bunch " + std::to_string(b) + ": BunchLength=" + fmt_g(len[k * nb + b], 9) + " but the stored profile has rms " + fmt_g(std::sqrt(std::max(vq, 0.0)), 9));
                if (std::fabs(mp - eav[k * nb + b]) > tolm) o.fail("C10.moments", at + " bunch " + std::to_string(b) + ": EnergyAverage=" + fmt_g(eav[k * nb + b], 9) + " but the stored energy profile has mean " + fmt_g(mp, 9));
                if (std::fabs(std::sqrt(std::max(vp, 0.0)) - esp[k * nb + b]) > tolm) o.fail("C10.moments", at + " bunch " + std::to_string(b) + ": EnergySpread=" + fmt_g(esp[k * nb + b], 9) + " but the stored energy profile has rms " + fmt_g(std::sqrt(std::max(vp, 0.0)), 9));
                // CSR intensity = df * sum of the stored spectrum
                if (spec.size() == nrec * nb * (d.padded_bins / 2) && inten.size() == nrec * nb) {
                    o.checks++;
                    double sum = 0; size_t m = d.padded_bins / 2;
                    for (size_t i = 0; i < m; i++) sum += spec[(k * nb + b) * m + i];
                    sum *= dfreq;
                    // single-precision noise floor of the spectrum: (1e-6 |F(0)|)^2 at the largest impedance; below it intensity
                    // and spectrum are both rounding noise of the float FFT and are not judged
                    double f00 = 0; for (unsigned x = 0; x < n; x++) f00 += (double)P[x];
                    double floor_ = (double)dfreq * (double)d.delta_q * (double)d.delta_q * zrad_max * f00 * f00 * 1e-10;
                    if (std::fabs((double)inten[k * nb + b]) < floor_) o.probe("reach.csr_below_single_precision_floor");
                    else if (std::fabs(sum - inten[k * nb + b]) > 1e-4 * std::fabs(sum) + 1e-30) {
                        // Is the difference the Nyquist bin (index nmax/2), which enters the intensity but is not stored?
                        // |F(Nyquist)|^2 follows from the stored profile; Re Z there is extrapolated from the last stored bin.
                        double fN = 0, fL_re = 0, fL_im = 0;
                        size_t NN = d.padded_bins;
                        double fN_im = 0;
                        for (unsigned x = 0; x < n; x++) {
                            double phN = -2 * M_PI * (double)((x * m) % NN) / (double)NN;     // bin nmax/2: computed, never stored
                            fN += (double)P[x] * std::cos(phN); fN_im += (double)P[x] * std::sin(phN);
                            double ph = -2 * M_PI * (double)((x * (m - 1)) % NN) / (double)NN;
                            fL_re += (double)P[x] * std::cos(ph); fL_im += (double)P[x] * std::sin(ph);
                        }
                        fN = std::sqrt(fN * fN + fN_im * fN_im);
                        double normL = fL_re * fL_re + fL_im * fL_im;
                        double hz = s.attrd("/Info/AxisValues_f@Hertz", 1);
                        auto cut = [&](double i) { if (cfg.fc <= 0) return 1.0; double f = hz * (double)dfreq * i / (double)(float)cfg.fc; return 1 - std::exp(-f * f); };
                        double lastbin = spec[(k * nb + b) * m + (m - 1)];
                        double T = normL > 0 ? (double)dfreq * lastbin * (fN * fN / normL) * cut((double)m) / std::max(cut((double)m - 1), 1e-300) : 0;
                        // sharper: Re Z of the radiation impedance at the missing bin from the program's own model
                        if (zrad_mid >= 0) T = (double)dfreq * (double)d.delta_q * (double)d.delta_q * cut((double)m) * zrad_mid * fN * fN;
                        double missing = inten[k * nb + b] - sum;
                        // (Re Z at the missing bin is only extrapolated from its neighbour: accept a factor 10 either way)
                        if (T > 0 && missing > 0 && (zrad_mid >= 0 ? std::fabs(missing - T) <= 0.02 * T + 2e-4 * std::fabs(sum) : (missing >= 0.1 * T && missing <= 10 * T + 1e-4 * std::fabs(sum))))
                            o.fail("C10.csr_nyquist_bin_not_stored", at + " bunch " + std::to_string(b) + ": CSR intensity " + fmt_g(inten[k * nb + b], 9) + " exceeds the sum of the stored spectrum " + fmt_g(sum, 9) + " by the Nyquist bin (estimated " + fmt_g(T, 6) + "), which the file does not store");
                        else
                            o.fail("C10.csr_intensity_is_sum", at + " bunch " + std::to_string(b) + ": CSR intensity " + fmt_g(inten[k * nb + b], 9) + " but the stored spectrum sums to " + fmt_g(sum, 9) + " (Nyquist-bin estimate " + fmt_g(T, 6) + ")");
                    }
                } else o.fail("C10.structure", "CSR dataset shapes");
            }
            // each bunch's spectrum row holds that bunch: spectrum[b][i] / |DFT(profile_b)[i]|^2 is the same function of the
            // frequency for every bunch (radiation impedance times cutoff), whatever it is
            if (nb > 1 && spec.size() == nrec * nb * (d.padded_bins / 2)) {
                const size_t NN = d.padded_bins, m = NN / 2;
                auto ff2 = [&](unsigned b, size_t i) {
                    double re = 0, im = 0;
                    for (unsigned x = 0; x < n; x++) { double ph = -2 * M_PI * (double)((x * i) % NN) / (double)NN; re += (double)prof[(k * nb + b) * n + x] * std::cos(ph); im += (double)prof[(k * nb + b) * n + x] * std::sin(ph); }
                    return re * re + im * im;
                };
                double f0max = 0;
                std::vector<double> f0(m);
                for (size_t i = 0; i < m; i++) { f0[i] = ff2(0, i); f0max = std::max(f0max, f0[i]); }
                for (unsigned b = 1; b < nb && !o.has("C10.spectrum_rows"); b++) {
                    o.checks++;
                    double fbmax = 0; std::vector<double> fb(m);
                    for (size_t i = 0; i < m; i++) { fb[i] = ff2(b, i); fbmax = std::max(fbmax, fb[i]); }
                    for (size_t i = 1; i < m; i++) {
                        double s0 = spec[(k * nb + 0) * m + i], sb = spec[(k * nb + b) * m + i];
                        // (bins where the single-precision product Re Z * |F|^2 is close to the subnormal range carry no precision)
                        if (!(f0[i] > 1e-4 * f0max && fb[i] > 1e-4 * fbmax && s0 > 1e-30 && sb > 1e-30)) continue;
                        double r0 = s0 / f0[i], rb = sb / fb[i];
                        if (std::fabs(rb / r0 - 1) > 5e-3) { o.fail("C10.spectrum_rows", at + ": CSR spectrum row of bunch " + std::to_string(b) + " at bin " + std::to_string(i) + " is " + fmt_g(rb / r0, 6) + " times what bunch 0's row implies for that bunch's stored profile (transform length " + std::to_string(NN) + ")"); break; }
                    }
                }
            }
            // wake potential = scaled inverse DFT of Z * DFT(padded train of stored profiles)
            if (d.has_wake && wake.size() == nrec * nb * n && zre.size() == N / 2) {
                o.checks++;
                o.probe("reach.wake_convolution_checked");
                const size_t half = N / 2;
                std::vector<std::complex<double>> X(half);
                const double w0 = -2 * M_PI / (double)N;
                for (size_t kk = 0; kk < half; kk++) {
                    std::complex<double> F(0, 0);
                    if (zre[kk] != 0 || zim[kk] != 0) {
                        for (unsigned b = 0; b < nb; b++) {
                            size_t off = (size_t)d.bucketnumbers[b] * d.spacing_bins;
                            for (unsigned x = 0; x < n; x++) {
                                double ph = w0 * (double)(((off + x) * kk) % N);
                                F += (double)prof[(k * nb + b) * n + x] * std::complex<double>(std::cos(ph), std::sin(ph));
                            }
                        }
                    }
                    X[kk] = F * std::complex<double>(zre[kk], zim[kk]);
                }
                double wmax = 0, num = 0, den = 0;
                std::vector<double> mine(nb * n);
                for (unsigned b = 0; b < nb; b++) {
                    size_t off = (size_t)d.bucketnumbers[b] * d.spacing_bins;
                    for (unsigned x = 0; x < n; x++) {
                        size_t j = off + x;
                        double acc = X[0].real();
                        for (size_t kk = 1; kk < half; kk++) {
                            double ph = 2 * M_PI * (double)((j * kk) % N) / (double)N;
                            acc += 2 * (X[kk].real() * std::cos(ph) - X[kk].imag() * std::sin(ph));
                        }
                        mine[b * n + x] = acc * wakescale;
                        double st = wake[(k * nb + b) * n + x];
                        wmax = std::max(wmax, std::fabs(mine[b * n + x]));
                        num += st * mine[b * n + x]; den += mine[b * n + x] * mine[b * n + x];
                    }
                }
                if (wmax > 0 && den > 0) {
                    double sc = num / den;   // best uniform factor stored/mine
                    // on a renormalisation step the wake was computed before the profile was rescaled; the rescaling factor
                    // (the charge drift since the last renormalisation) cannot be recovered from the file
                    double allowed_scale = 2e-5; (void)drift_seen;   // since the renormalisation precedes the wake update, no leniency on renormalisation steps
                    if (std::fabs(sc - 1) > allowed_scale) o.fail("C10.wake_strength", at + ": stored wake potential is " + fmt_g(sc, 8) + " times the convolution of the stored profile with the stored impedance (machine-parameter scaling " + fmt_g(wakescale * N, 6) + ")");
                    else for (size_t i = 0; i < mine.size(); i++) {
                        // (on a renormalisation step every bunch is rescaled by its own factor, so the deviation is uniform
                        //  only per bunch: allow a residual of the order of the rescaling)
                        double restol = 3e-5;
                        if (std::fabs(wake[k * nb * n + i] - sc * mine[i]) > restol * wmax) { o.fail("C10.wake_is_convolution", at + ": WakePotential[" + std::to_string(i / n) + "][" + std::to_string(i % n) + "]=" + fmt_g(wake[k * nb * n + i], 9) + " but the convolution gives " + fmt_g(sc * mine[i], 9) + " (max " + fmt_g(wmax, 6) + ")"); break; }
                    }
                }
            }
        }
        return finish(o, cfg, d, r, plan);
    }

    Outcome finish(Outcome& o, const Cfg& cfg, const Derived& d, const LaunchResult& r, const Plan& plan) const {
        std::string wk = !d.has_wake ? "nowake" : !cfg.impedance.empty() ? "file" : cfg.gap < 0 ? "free" : cfg.wallcond > 0 ? "rw" : cfg.collimator > 0 ? "coll" : "pp";
        std::string oc = cfg.outstep == 0 ? "never" : cfg.outstep == 1 ? "every" : (unsigned)cfg.outstep > d.laststep ? "beyond" : "n";
        o.probe("cls.nb" + std::to_string(d.nbunches) + "of" + std::to_string(d.nbuckets) + "." + wk + (cfg.shiftx != 0 || cfg.shifty != 0 ? ".shift" : "") +
                ".rn" + (cfg.renorm < 0 ? "off" : cfg.renorm == 0 ? "init" : "n") + "." + oc + ".ps" + std::to_string(cfg.saveps) + (r.raised.empty() ? "" : ".sigint") + (d.dynamic_rf ? ".dyn" : "") + (cfg.tracking.empty() ? "" : ".trk"));
        if (plan.geti("lencls", 0) == 1) o.probe("reach.single_profile_length_equals_train_length"); else if (plan.geti("lencls", 0) == 2) o.probe("reach.single_profile_length_exceeds_train_length");
        if (cfg.shiftx != cfg.shifty) o.probe("reach.unequal_shifts");
        if (d.nbunches > 1) o.probe("reach.multibunch");
        if (d.nbuckets > d.nbunches) o.probe("reach.empty_bucket");
        if (!r.raised.empty()) o.probe("reach.ended_by_sigint");
        o.nontrivial = true;
        o.sample = cfg.summary() + (plan.geti("sigint", -1) >= 0 ? " sigint" : "");
        return o;
    }

    std::vector<Plan> shrink_candidates(const Plan& p, const Outcome&) const override {
        std::vector<Plan> out;
        Cfg c = Cfg::from_plan(p);
        auto with = [&](std::function<void(Cfg&, Plan&)> f) { Cfg d = c; Plan q = p; f(d, q); d.to_plan(q); if (!(q == p)) out.push_back(q); };
        if (p.geti("sigint", -1) >= 0) { Plan q = p; q.seti("sigint", -1); out.push_back(q); }
        with([](Cfg& d, Plan&) { double first = 1e-3; for (double x : d.currents) if (x > 0) { first = x; break; } d.currents = {first}; });
        with([](Cfg& d, Plan& q) { d.gap = 0; d.wallcond = 0; d.collimator = 0; d.useCSR = true; d.impedance = ""; q.erase("file.imp.dat"); });
        with([](Cfg& d, Plan& q) { d.tracking = ""; q.erase("file.track.txt"); });
        with([](Cfg& d, Plan&) { d.rf_mod_ampl = d.rf_mod_freq = d.rf_phase_spread = d.rf_ampl_spread = 0; });
        with([](Cfg& d, Plan&) { d.tdamp = 0; });
        with([](Cfg& d, Plan&) { d.shiftx = d.shifty = 0; });
        with([](Cfg& d, Plan&) { d.shifty = 0; });
        with([](Cfg& d, Plan&) { d.grid = 12; });
        with([](Cfg& d, Plan&) { d.renorm = 0; });
        with([](Cfg& d, Plan&) { d.saveps = 1; });
        with([](Cfg& d, Plan&) { d.outstep = 1; });
        with([](Cfg& d, Plan&) { d.interp = 4; d.deriv = 4; d.clamp = false; d.zoom = 1; d.pssize = 12; d.padding = 2; d.roundpad = true; d.linearRF = true; d.verbose = false; });
        with([](Cfg& d, Plan&) { Derived dd = derive(d); if (dd.laststep > 1) d.rotations = (dd.laststep - 1 - 0.5) / dd.steps; });
        return out;
    }
};

ScenarioRegistrar reg(new C10());

} // namespace
} // namespace sim
