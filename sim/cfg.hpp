// One physics/program configuration of inovesa: command line, plan (de)serialisation,
// and an independent re-derivation of the machine numbers main() computes.
#pragma once
#include "util.hpp"
#include <string>
#include <vector>

namespace sim {

struct Cfg {
    // numerical
    long grid = 32;
    double pssize = 12;
    double shiftx = 0, shifty = 0;
    long steps = 50;                 // StepsPerTs
    double steps_per_rev = 0;        // StepsPerRevolution (overrides when > 0)
    double rotations = 1;
    long outstep = 10;
    long saveps = 0;
    long interp = 4, deriv = 4;
    bool clamp = false;
    long renorm = 0;
    double padding = 2;
    bool roundpad = true;
    long fptype = 3, fptrack = 3;
    // physical
    bool linearRF = true;
    std::vector<double> currents{3e-3};
    double gap = 0;
    bool useCSR = true;
    double wallcond = 0, wallsusc = 0, collimator = 0;
    std::string impedance;           // file name (relative to run directory)
    double tdamp = -1;
    double rf_phase_spread = 0, rf_ampl_spread = 0, rf_mod_ampl = 0, rf_mod_freq = 0;
    double zoom = 1;
    double alpha0 = 4e-3, alpha1 = 0, alpha2 = 0;
    double fs = 0;
    double H = 50, frev = 9e6, E0 = 1.3e9, sE = 4.7e-4, VRF = 1e6, rbend = -1, fc = 23e9;
    // program
    bool verbose = false;
    std::string tracking;            // file name
    std::string startfile;
    long startstep = -1;
    bool has_startstep = false;
    std::string output = "out.h5";
    std::vector<std::string> extra;  // raw extra arguments appended last

    std::vector<std::string> args() const;
    void to_plan(Plan& p, const std::string& pre = "c.") const;
    static Cfg from_plan(const Plan& p, const std::string& pre = "c.");
    std::string summary() const;     // short human-readable description
};

// Re-derivation (double precision, float rounding where the program stores floats).
struct Derived {
    double f_rev, harmonic, f_RF, bunchspacing, R_bend, V0, V_eff, fs, alpha0;
    double dE, bl, Ib, Qb, steps, dt, revolutionpart, t_sync, t_damp, calc_damp;
    float angle, e1, rotations_f, fmax;
    float pqsize, qmin, qmax, pmin, pmax, delta_q, delta_p;
    unsigned laststep;
    unsigned nbuckets, nbunches;
    std::vector<unsigned> bucketnumbers;
    std::vector<float> shares;       // normalised bunch currents (float, as in the program)
    double spacing_ps;
    unsigned spacing_bins;
    size_t padded_bins, spaced_bins;
    size_t wake_nmax;                // transform length of the wake field
    bool has_wake;                   // a wake impedance exists
    bool dynamic_rf;
    double theta() const { return 2 * M_PI / steps; }
    // axis value i of the position / energy axis exactly as Ruler computes it (float arithmetic)
    float q(unsigned i) const { return qmin + float(i) * delta_q; }
    float p(unsigned i) const { return pmin + float(i) * delta_p; }
    float zerobin_q(unsigned n) const { return ((qmin + qmax) / (qmin - qmax) + 1) * (n - 1) / 2; }
    float zerobin_p(unsigned n) const { return ((pmin + pmax) / (pmin - pmax) + 1) * (n - 1) / 2; }
};
Derived derive(const Cfg& c);

// output schedule model: list of output steps and which carry a phase space
struct Schedule {
    std::vector<unsigned> out_steps;     // steps at which a default record is written (incl. final)
    std::vector<unsigned> ps_steps;      // steps at which a phase-space record is written (in file order)
};
Schedule schedule(const Cfg& c, unsigned executed_steps);

uint64_t upper_pow2(uint64_t v);

} // namespace sim
