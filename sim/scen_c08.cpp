// C08: in a multi-bunch run every bunch evolves exactly as it would on its own.
// (api_map)   histories of 1-50 applications of one map on a train with different data (and, for the energy kick,
//             different displacement fields) per bunch, each bunch compared bit for bit with the single-bunch map;
// (prog_same) program runs with identical bunches and empty buckets vs the single-bunch run;
// (prog_wake) every recorded transition f_k[b] -> f_{k+1}[b] of a multi-bunch run with wake is re-computed with the
//             single-bunch maps using the recorded wake potential of that bunch (refinement, step by step).
#include "api.hpp"
#include "common.hpp"

namespace sim {
namespace {

using namespace vfps;

struct MapSpec {
    std::string kind;   // kicky kickx rflin rfsin drift fp ident
    unsigned n; int interp; bool clamp; uint64_t oseed, dseed; long napply;
    int fptype, deriv; double e1; double angle; double shiftx, shifty; int offkind;
};

static std::shared_ptr<PhaseSpace> mkps(const MapSpec& m, unsigned nb) {
    std::vector<integral_t> fill(nb, 1.0f / nb);
    if (nb == 3) fill = {0.5f, 0.25f, 0.25f};
    float qc = -(float)m.shiftx * 12.0f / (m.n - 1), pc = -(float)m.shifty * 12.0f / (m.n - 1);
    return std::make_shared<PhaseSpace>(qc - 6, qc + 6, 2e-3, pc - 6, pc + 6, 6e5, nullptr, 1.0, 1.0, fill, 1.0);
}

// data of bunch b (independent of how many bunches there are)
static void fill_bunch(float* d, unsigned n, uint64_t dseed, unsigned b) {
    Rng r(Rng::mix(dseed, b));
    int kind = (int)r.range(0, 2);
    double cx = r.uniform(0.3, 0.7) * n, cy = r.uniform(0.3, 0.7) * n, sx = r.uniform(0.08, 0.25) * n, sy = r.uniform(0.08, 0.25) * n, amp = r.uniform(0.2, 2);
    for (unsigned x = 0; x < n; x++) for (unsigned y = 0; y < n; y++) {
        double v = kind == 0 ? amp * std::exp(-0.5 * (std::pow((x - cx) / sx, 2) + std::pow((y - cy) / sy, 2)))
                 : kind == 1 ? amp * r.unit() : amp * (r.unit() - 0.3);
        d[x * n + y] = (float)v;
    }
}
// displacement field (cells) of bunch b for the generic kick maps
static std::vector<float> offsets(unsigned n, uint64_t oseed, unsigned b, int kind) {
    Rng r(Rng::mix(oseed, 1000 + b));
    std::vector<float> o(n);
    double a = r.uniform(-2.5, 2.5), c = r.uniform(-1, 1), big = kind == 3 ? (double)n * 1.5 : 0;
    for (unsigned i = 0; i < n; i++) {
        if (kind == 0) o[i] = (float)(a * ((double)i / n - 0.5) + c);                 // smooth, fractional
        else if (kind == 1) o[i] = (float)std::round(a + c * (i % 3));                 // whole cells
        else if (kind == 2) o[i] = (float)r.uniform(-3, 3);                            // arbitrary per row
        else o[i] = (float)(r.chance(0.25) ? (r.chance(0.5) ? big : -big) : a);        // some rows (others for every bunch) kicked beyond the grid, either way
    }
    return o;
}

struct C08 : Scenario {
    const char* id() const override { return "C08"; }
    long default_runs(const std::string& tier) const override { return tier == "quick" ? 64 : 3000; }
    const char* rule() const override {
        return "one evaluation = one per-bunch comparison: (api_map) output slice of bunch b after each of 1-50 applications of a map built for 2-4 "
               "bunches vs the same map built for one bunch (energy kick with per-bunch displacement fields, position kick, both RF models, drift, "
               "Fokker-Planck variants, identity); (prog_same) per-bunch columns of runs with identical bunches/empty buckets vs the single-bunch "
               "run; (prog_wake) each recorded transition of each bunch vs the single-bunch pipeline fed with that bunch's recorded wake; "
               "distinct_nontrivial counts distinct (mode, map kind, bunches, interpolation, offset kind / filling pattern) keys";
    }
    const char* measure() const override { return "distinct (mode, map kind, bunch count, interpolation, offset kind or filling pattern) keys"; }
    std::vector<std::string> assumptions() const override {
        return {"bit-exact comparisons within one binary; identical-bunch program runs use power-of-two shares so that scaling is exact",
                "prog_wake runs use RenormalizeCharge -1 and static RF so that a step is exactly wake kick, RF kick, drift, Fokker-Planck"};
    }

    Plan generate(uint64_t seed, long, const std::string& tier) const override {
        Rng r(seed);
        Plan p;
        double u = r.unit();
        std::string mode = u < 0.55 ? "api_map" : u < 0.8 ? "prog_same" : "prog_wake";
        p.set("mode", mode);
        p.setu("entropy", r.u64());
        if (mode == "api_map") {
            p.set("kind", r.pick(std::vector<std::string>{"kicky", "kicky", "kickx", "rflin", "rfsin", "drift", "fp", "ident"}));
            p.seti("n", r.range(8, 40)); p.seti("nb", r.range(2, 4)); p.seti("interp", r.range(1, 4)); p.seti("clamp", r.chance(0.2));
            p.setu("oseed", r.u64()); p.setu("dseed", r.u64()); p.seti("napply", r.range(1, 50));
            p.seti("resched", r.chance(0.4));
            p.seti("fptype", r.range(0, 3)); p.seti("deriv", r.range(3, 4)); p.setd("e1", r.loguniform(1e-4, 2e-2));
            p.setd("angle", r.uniform(0.02, 0.4)); p.seti("offkind", r.range(0, 3));
            p.setd("shiftx", r.chance(0.5) ? 0 : (double)r.range(-3, 3)); p.setd("shifty", r.chance(0.5) ? 0 : (double)r.range(-3, 3));
            return p;
        }
        SwarmOpts o;
        o.allow_multibunch = false; o.allow_dynrf = false; o.allow_tracking = false; o.max_grid = 24; o.max_rot_steps = tier == "quick" ? 10 : 24; o.min_rot_steps = 3;
        o.allow_wake = mode == "prog_wake";
        Cfg c = swarm_cfg(r, o);
        c.outstep = 1; c.saveps = 1; c.verbose = false;
        if (mode == "prog_same") {
            c.gap = 0; c.wallcond = 0; c.collimator = 0;
            double I = c.currents[0];
            std::vector<std::vector<double>> pats = {{I, I}, {I, 0, I}, {0, I, I}, {I, I, 0}, {I, I, I, I}, {I, 0, I, 0}, {0, I, 0, I, I, I}};
            auto pat = r.pick(pats);
            // 40 %: unequal currents (shares no longer powers of two: compared with a relative tolerance) - a bunch normalised
            // or measured with another bunch's charge only shows when the charges differ
            if (r.chance(0.4)) { double f = 1; for (auto& v : pat) if (v > 0) { v *= f; f *= r.uniform(1.3, 2.2); } }
            p.setdlist("pattern", pat);
            // a second pattern with the same occupied bunches but other empty buckets
            std::vector<double> alt;
            for (double v : pat) { if (r.chance(0.4)) alt.push_back(0); alt.push_back(v); }
            if (r.chance(0.5)) alt.push_back(0);
            p.setdlist("pattern2", alt);
            c.padding = 2; c.roundpad = true;
            // "the RF kick ... transform every bunch exactly as they transform a single bunch": also the dynamic (modulated / noisy) RF
            // map, whose kick is rebuilt every step; noise comes from the same simulated entropy stream in the train and in the single run
            if (r.chance(0.35)) {
                Derived d0 = derive(c);
                int k = (int)r.range(0, 2);
                if (k == 0) { c.rf_mod_ampl = std::round(r.uniform(0.05, 2) * 1000) / 1000; c.rf_mod_freq = std::round(d0.fs * r.uniform(0.5, 2)); }
                else if (k == 1) c.rf_phase_spread = 0.01; else { c.rf_ampl_spread = 1e-3; c.rf_mod_ampl = 0.3; c.rf_mod_freq = std::round(d0.fs); }
            }
        } else {
            if (c.gap == 0) { c.gap = 0.03; }
            c.renorm = -1;
            long nb = r.range(2, 3);
            c.currents.clear();
            for (long i = 0; i < nb; i++) { if (r.chance(0.25)) c.currents.push_back(0); c.currents.push_back(std::round(r.uniform(0.4e-3, 3e-3) * 1e5) / 1e5); }
            if (r.chance(0.3)) c.currents.push_back(0);
            c.padding = 2;
        }
        c.to_plan(p);
        return p;
    }

    // ------------------------------------------------------------------ api_map
    struct Built { std::shared_ptr<PhaseSpace> in, out; std::unique_ptr<SourceMap> map; };

    static Built build(const MapSpec& m, unsigned nb, int only_bunch) {
        Built b;
        PhaseSpace::resetSize(m.n, nb);
        b.in = mkps(m, nb); b.out = mkps(m, nb);
        auto it = (SourceMap::InterpolationType)m.interp;
        if (m.kind == "kicky" || m.kind == "kickx") {
            auto ax = m.kind == "kicky" ? KickMap::Axis::y : KickMap::Axis::x;
            auto* k = new KickMap(b.in, b.out, it, m.clamp, ax, nullptr);
            std::vector<meshaxis_t> off((size_t)m.n * nb);
            for (unsigned bb = 0; bb < nb; bb++) {
                // position kick shares one field among all bunches (as DriftMap does): use field 0 for everyone
                unsigned src = m.kind == "kickx" ? 0 : (only_bunch >= 0 ? (unsigned)only_bunch : bb);
                auto o = offsets(m.n, m.oseed, src, m.offkind);
                std::copy(o.begin(), o.end(), off.begin() + (size_t)bb * m.n);
            }
            k->swapOffset(off);
            b.map.reset(k);
        } else if (m.kind == "rflin") b.map.reset(new RFKickMap(b.in, b.out, (float)m.angle, 5e8f, it, m.clamp, nullptr));
        else if (m.kind == "rfsin") b.map.reset(new RFKickMap(b.in, b.out, 0.02f, 1e6f, 5e8f, 5e4f, it, m.clamp, nullptr));
        else if (m.kind == "drift") b.map.reset(new DriftMap(b.in, b.out, {(float)m.angle, (float)(m.angle * 0.3), 0.0f}, 1.3e9f, it, m.clamp, nullptr));
        else if (m.kind == "fp") b.map.reset(new FokkerPlanckMap(b.in, b.out, m.n, m.n, (FokkerPlanckMap::FPType)m.fptype, FokkerPlanckMap::FPTracking::none, (float)m.e1, (FokkerPlanckMap::DerivationType)m.deriv, nullptr));
        else b.map.reset(new Identity(b.in, b.out, nullptr));
        return b;
    }

    void run_api(const Plan& plan, RunCtx& rc, Outcome& o) const {
        MapSpec m;
        m.kind = plan.get("kind"); m.n = (unsigned)plan.geti("n"); m.interp = (int)plan.geti("interp"); m.clamp = plan.geti("clamp") != 0;
        m.oseed = plan.getu("oseed"); m.dseed = plan.getu("dseed"); m.napply = plan.geti("napply"); m.fptype = (int)plan.geti("fptype");
        m.deriv = (int)plan.geti("deriv"); m.e1 = plan.getd("e1"); m.angle = plan.getd("angle"); m.offkind = (int)plan.geti("offkind");
        m.shiftx = plan.getd("shiftx"); m.shifty = plan.getd("shifty");
        unsigned nb = (unsigned)plan.geti("nb");
        const size_t cells = (size_t)m.n * m.n;
        // energy kick whose displacement field is replaced before every application (as the wake kick is, every step): a seeded
        // schedule of steps in which every bunch gets its own field (D), all bunches get bitwise the same field (S) or a zero field (Z)
        const bool resched = plan.geti("resched", 0) && m.kind == "kicky";
        Rng rs(Rng::mix(m.oseed, 0x5c4ed));
        std::string sched;
        for (long k = 0; k < m.napply; k++) sched += resched ? "DSZ"[rs.range(0, 9) < 5 ? 0 : rs.range(0, 9) < 7 ? 1 : 2] : 'D';
        auto field = [&](long k, unsigned bunch) {
            if (sched[(size_t)k] == 'Z') return std::vector<float>(m.n, 0.0f);
            return offsets(m.n, Rng::mix(m.oseed, 977 * (uint64_t)k), sched[(size_t)k] == 'S' ? 0 : bunch, m.offkind);
        };
        if (resched) o.probe("reach.field_replaced_every_application");
        api_begin(rc.workdir, plan.getu("entropy"), 0);
        // multi-bunch history, outputs recorded per application
        std::vector<std::vector<float>> rec;   // [application] -> nb*cells
        {
            Built b = build(m, nb, -1);
            for (unsigned bb = 0; bb < nb; bb++) fill_bunch(b.in->getData() + bb * cells, m.n, m.dseed, bb);
            for (long k = 0; k < m.napply; k++) {
                if (resched) {
                    std::vector<meshaxis_t> off((size_t)m.n * nb);
                    for (unsigned bb = 0; bb < nb; bb++) { auto f = field(k, bb); std::copy(f.begin(), f.end(), off.begin() + (size_t)bb * m.n); }
                    dynamic_cast<KickMap*>(b.map.get())->swapOffset(off);
                }
                b.map->apply();
                rec.emplace_back(b.out->getData(), b.out->getData() + nb * cells);
                std::copy(b.out->getData(), b.out->getData() + nb * cells, b.in->getData());
            }
        }
        // each bunch on its own
        for (unsigned bb = 0; bb < nb && o.fails.empty(); bb++) {
            Built s = build(m, 1, (int)bb);
            fill_bunch(s.in->getData(), m.n, m.dseed, bb);
            for (long k = 0; k < m.napply; k++) {
                if (resched) { auto f = field(k, bb); std::vector<meshaxis_t> off(f.begin(), f.end()); dynamic_cast<KickMap*>(s.map.get())->swapOffset(off); }
                s.map->apply();
                o.checks++;
                size_t where = 0;
                if (!same_bits(s.out->getData(), rec[(size_t)k].data() + bb * cells, cells, &where)) {
                    float a = s.out->getData()[where], c = rec[(size_t)k][bb * cells + where];
                    if (!(std::isnan(a) && std::isnan(c))) {
                        o.hints["napply"] = std::to_string(k + 1);
                        o.fail("C08.map_" + m.kind, "bunch " + std::to_string(bb) + " of " + std::to_string(nb) + ", application #" + std::to_string(k) + ": cell (" + std::to_string(where / m.n) + "," + std::to_string(where % m.n) + ") = " + fmt_g(c, 9) + " in the train but " + fmt_g(a, 9) + " when the bunch is transported alone");
                        break;
                    }
                }
                std::copy(s.out->getData(), s.out->getData() + cells, s.in->getData());
            }
        }
        api_end();
        o.probe("cls.api." + m.kind + ".nb" + std::to_string(nb) + ".ip" + std::to_string(m.interp) + (m.kind == "kicky" || m.kind == "kickx" ? ".off" + std::to_string(m.offkind) : "") + (m.kind == "fp" ? ".fp" + std::to_string(m.fptype) + "d" + std::to_string(m.deriv) : ""));
        if (m.offkind == 3 && (m.kind == "kicky" || m.kind == "kickx")) o.probe("reach.kick_beyond_grid");
        o.mixfp(hash_bytes(rec.back().data(), rec.back().size() * 4));
        o.nontrivial = true;
        o.sample = "api_map " + m.kind + " n=" + std::to_string(m.n) + " nb=" + std::to_string(nb) + " interp=" + std::to_string(m.interp) + " applications=" + std::to_string(m.napply);
    }

    // ------------------------------------------------------------------ program modes
    static bool launch(Outcome& o, const Cfg& c, RunCtx& rc, const std::string& tag, uint64_t entropy, H5Snap& s, Derived& d) {
        d = derive(c);
        Launch l = make_launch(c, rc.workdir, tag, entropy, 0);
        LaunchResult r = run_launch(l);
        o.launches++; o.simsteps += r.sumi("steps_done");
        if (!r.exited || r.code != 0) { o.set_infra("launch " + tag + " failed: " + r.describe() + " " + tail(r.err)); return false; }
        s = h5_read(rc.workdir + "/" + c.output);
        if (!s.ok) { o.set_infra("launch " + tag + ": unreadable results " + tail(r.out)); return false; }
        o.mixfp(r.evhash()); o.mixfp(s.digest());
        return true;
    }

    void run_same(const Plan& plan, RunCtx& rc, Outcome& o) const {
        Cfg cfg = Cfg::from_plan(plan);
        uint64_t entropy = plan.getu("entropy");
        auto pat = plan.getdlist("pattern"), pat2 = plan.getdlist("pattern2");
        Cfg single = cfg; single.output = "single.h5";
        Cfg multi = cfg; multi.currents = pat; multi.output = "multi.h5";
        Cfg multi2 = cfg; multi2.currents = pat2; multi2.output = "multi2.h5";
        H5Snap s1, sm, sm2; Derived d1, dm, dm2;
        if (!launch(o, single, rc, "single", entropy, s1, d1) || !launch(o, multi, rc, "multi", entropy, sm, dm) || !launch(o, multi2, rc, "multi2", entropy, sm2, dm2)) return;
        unsigned nb = dm.nbunches, n = (unsigned)cfg.grid;
        bool equal = true;
        for (unsigned b = 1; b < nb; b++) if (dm.shares[b] != dm.shares[0]) equal = false;
        bool pow2 = equal && (nb & (nb - 1)) == 0;
        auto share_of = [&](unsigned b) { return equal ? 1.0f / nb : dm.shares[b]; };
        std::string patdesc = plan.get("pattern");
        // per-bunch scalar columns equal the single-bunch run; extensive quantities scale with the share
        struct Col { const char* name; double scale; };
        // scale: 0 = intensive, 1 = proportional to the share, 2 = to its square
        std::vector<Col> cols = {{"/BunchLength/data", 0}, {"/BunchPosition/data", 0}, {"/EnergySpread/data", 0}, {"/EnergyAverage/data", 0},
                                 {"/BunchPopulation/data", 1}, {"/CSR/Intensity/data", 2}};
        for (auto& c : cols) {
            auto a = s1.f32(c.name), b = sm.f32(c.name);
            size_t rows = s1.rows(c.name);
            if (b.size() != a.size() * nb) { o.fail("C08.identical_bunches", std::string(c.name) + ": shapes differ between single- and multi-bunch run"); continue; }
            for (size_t k = 0; k < rows && !o.has("C08.identical_bunches"); k++) for (unsigned bb = 0; bb < nb; bb++) {
                o.checks++;
                float sh = share_of(bb);
                float fac = c.scale == 0 ? 1.0f : c.scale == 1 ? sh : sh * sh;
                float expect = (float)(a[k] * fac), got = b[k * nb + bb];
                bool ok = pow2 ? (f2u(expect) == f2u(got) || (expect == got)) : std::fabs(got - expect) <= 2e-5 * std::fabs(expect) + (c.scale == 0 ? 2e-6 : 1e-7);
                if (!ok && !(std::isnan(expect) && std::isnan(got))) { o.fail("C08.identical_bunches", "filling " + patdesc + ": " + c.name + " record " + std::to_string(k) + " bunch " + std::to_string(bb) + " = " + fmt_g(got, 9) + " but the single-bunch run has " + fmt_g(expect, 9)); break; }
            }
        }
        // phase space and profiles: share times the single-bunch data
        for (auto nme : {PS_DATA, "/BunchProfile/data", "/EnergyProfile/data"}) {
            auto a = s1.f32(nme), b = sm.f32(nme);
            size_t rows = s1.rows(nme), rl = rows ? a.size() / rows : 0;
            if (b.size() != a.size() * nb) { o.fail("C08.identical_bunches", std::string(nme) + ": shapes differ"); continue; }
            for (size_t k = 0; k < rows && !o.has("C08.identical_bunches"); k++) for (unsigned bb = 0; bb < nb; bb++) {
                o.checks++;
                double rowmax = 0;
                for (size_t i = 0; i < rl; i++) rowmax = std::max(rowmax, (double)std::fabs(a[k * rl + i] * share_of(bb)));
                for (size_t i = 0; i < rl; i++) {
                    float expect = a[k * rl + i] * share_of(bb), got = b[(k * nb + bb) * rl + i];
                    // scaling by a power of two is exact except in the subnormal range (far tails below 1.2e-38)
                    // (also for results a little above it whose interpolation terms were subnormal in the scaled run: thorough tier,
                    //  4.16128331e-38 vs 4.16128303e-38, one ulp; 1e-42 is ~700 subnormal steps and far below one ulp of anything > 1e-35)
                    bool ok = pow2 ? (expect == got || (std::fabs(expect) < 1e-35f && std::fabs(got - expect) <= 1e-42f)) : std::fabs(got - expect) <= 2e-5 * std::fabs(expect) + 3e-6 * rowmax;   // (unequal shares: rounding relative to the largest value of the record)
                    if (!ok && !(std::isnan(expect) && std::isnan(got))) { o.fail("C08.identical_bunches", "filling " + patdesc + ": " + nme + " record " + std::to_string(k) + " bunch " + std::to_string(bb) + " element " + std::to_string(i) + " = " + fmt_g(got, 9) + " but share x single-bunch value = " + fmt_g(expect, 9)); break; }
                }
                if (o.has("C08.identical_bunches")) break;
            }
        }
        // other empty buckets: no per-bunch dataset changes
        (void)n;
        for (auto nme : {PS_DATA, "/BunchProfile/data", "/EnergyProfile/data", "/BunchLength/data", "/BunchPosition/data", "/EnergySpread/data", "/EnergyAverage/data", "/BunchPopulation/data", "/CSR/Intensity/data", "/CSR/Spectrum/data"}) {
            o.checks++;
            auto a = sm.get(nme), b = sm2.get(nme);
            if (!a || !b || !a->same(*b)) { o.fail("C08.empty_buckets", std::string(nme) + " differs between filling " + patdesc + " and " + plan.get("pattern2") + " (same bunches, other empty buckets, no impedance)"); break; }
        }
        o.probe(std::string("cls.same.") + (equal ? "eq" : "uneq") + ".nb" + std::to_string(nb) + "of" + std::to_string(pat.size()) + ".ip" + std::to_string(cfg.interp) + (cfg.linearRF ? ".lin" : ".sin") + (cfg.tdamp != 0 ? ".fp" + std::to_string(cfg.fptype) : ""));
        o.nontrivial = true;
        o.sample = "prog_same filling=" + patdesc + " alt=" + plan.get("pattern2") + " " + cfg.summary();
    }

    void run_wake(const Plan& plan, RunCtx& rc, Outcome& o) const {
        Cfg cfg = Cfg::from_plan(plan);
        uint64_t entropy = plan.getu("entropy");
        H5Snap s; Derived d;
        if (!launch(o, cfg, rc, "run", entropy, s, d)) return;
        if (!d.has_wake || d.nbunches < 2) { o.discard("plan without wake or with a single bunch"); return; }
        unsigned n = (unsigned)cfg.grid, nb = d.nbunches;
        const size_t cells = (size_t)n * n;
        auto ps = s.f32(PS_DATA), wake = s.f32("/WakePotential/data");
        size_t nrec = s.rows(PS_DATA);
        if (ps.size() != nrec * nb * cells || wake.size() != s.rows(TIME_AXIS) * nb * n || nrec != s.rows(TIME_AXIS)) { o.set_infra("unexpected dataset shapes in reference run"); return; }
        // single-bunch pipeline with the parameters main() derives
        api_begin(rc.workdir, entropy, 0);
        PhaseSpace::resetSize(n, 1);
        std::vector<integral_t> fill{1.0f};
        auto mk = [&]() { return std::make_shared<PhaseSpace>(d.qmin, d.qmax, d.bl, d.pmin, d.pmax, d.dE, nullptr, d.Qb, d.Ib, fill, 1.0); };
        auto g1 = mk(), g2 = mk(), g3 = mk();
        auto it = (SourceMap::InterpolationType)cfg.interp;
        KickMap wk(g1, g2, it, cfg.clamp, KickMap::Axis::y, nullptr);
        std::unique_ptr<SourceMap> rf;
        if (cfg.linearRF) rf.reset(new RFKickMap(g2, g1, d.angle, (float)d.f_RF, it, cfg.clamp, nullptr));
        else rf.reset(new RFKickMap(g2, g1, (float)d.revolutionpart, (float)cfg.VRF, (float)d.f_RF, (float)d.V0, it, cfg.clamp, nullptr));   // (the RF voltage itself, not the effective one: fix 99a9e36)
        float a0 = (float)d.alpha0;
        std::vector<meshaxis_t> slip{d.angle, (float)cfg.alpha1 / a0 * d.angle, (float)cfg.alpha2 / a0 * d.angle};
        DriftMap drift(g1, g3, slip, (float)cfg.E0, it, cfg.clamp, nullptr);
        std::unique_ptr<SourceMap> fp;
        if (d.e1 > 0) fp.reset(new FokkerPlanckMap(g3, g1, n, n, (FokkerPlanckMap::FPType)cfg.fptype, (FokkerPlanckMap::FPTracking)cfg.fptrack, d.e1, (FokkerPlanckMap::DerivationType)cfg.deriv, nullptr));
        else fp.reset(new Identity(g3, g1, nullptr));
        // records k and k+1 are consecutive steps (outstep=1); the last record is the final one (step laststep)
        for (size_t k = 0; k + 1 < nrec && o.fails.empty(); k++) {
            for (unsigned b = 0; b < nb; b++) {
                std::copy(ps.begin() + (long)((k * nb + b) * cells), ps.begin() + (long)((k * nb + b + 1) * cells), g1->getData());
                std::vector<meshaxis_t> off(wake.begin() + (long)((k * nb + b) * n), wake.begin() + (long)((k * nb + b + 1) * n));
                wk.swapOffset(off);
                wk.apply(); rf->apply(); drift.apply(); fp->apply();
                o.checks++;
                size_t where = 0;
                const float* expect = ps.data() + ((k + 1) * nb + b) * cells;
                if (!same_bits(g1->getData(), expect, cells, &where)) {
                    float a = g1->getData()[where], c = expect[where];
                    if (!(std::isnan(a) && std::isnan(c))) {
                        o.fail("C08.wake_transition", "step " + std::to_string(k) + " -> " + std::to_string(k + 1) + ", bunch " + std::to_string(b) + " of " + std::to_string(nb) + " (buckets " + plan.get("c.currents") + "): cell (" + std::to_string(where / n) + "," + std::to_string(where % n) + ") is " + fmt_g(c, 9) + " in the run but " + fmt_g(a, 9) + " when the recorded state of this bunch is transported alone with its own recorded wake potential");
                        break;
                    }
                }
            }
        }
        api_end();
        o.probe("cls.wake.nb" + std::to_string(nb) + "of" + std::to_string(d.nbuckets) + ".ip" + std::to_string(cfg.interp) + (cfg.linearRF ? ".lin" : ".sin") + (d.e1 > 0 ? ".fp" : ""));
        if (d.nbuckets > nb) o.probe("reach.empty_bucket_between");
        o.nontrivial = true;
        o.sample = "prog_wake " + cfg.summary() + " currents=" + plan.get("c.currents");
    }

    Outcome run(const Plan& plan, RunCtx& rc) const override {
        Outcome o;
        std::string mode = plan.get("mode");
        if (mode == "api_map") run_api(plan, rc, o);
        else if (mode == "prog_same") run_same(plan, rc, o);
        else run_wake(plan, rc, o);
        o.mixfp((uint64_t)o.fails.size());
        return o;
    }

    std::vector<Plan> shrink_candidates(const Plan& p, const Outcome& last) const override {
        std::vector<Plan> out;
        if (p.get("mode") == "api_map") {
            if (last.hints.count("napply")) { Plan q = p; q.set("napply", last.hints.at("napply")); out.push_back(q); }
            if (p.geti("nb") > 2) { Plan q = p; q.seti("nb", 2); out.push_back(q); }
            if (p.geti("n") > 8) { Plan q = p; q.seti("n", 8); out.push_back(q); }
            for (auto k : {"shiftx", "shifty"}) if (p.getd(k) != 0) { Plan q = p; q.setd(k, 0); out.push_back(q); }
            if (p.geti("clamp")) { Plan q = p; q.seti("clamp", 0); out.push_back(q); }
            if (p.geti("offkind") != 0) { Plan q = p; q.seti("offkind", 0); out.push_back(q); }
            return out;
        }
        Cfg c = Cfg::from_plan(p);
        auto with = [&](std::function<void(Cfg&)> f) { Cfg d = c; Plan q = p; f(d); d.to_plan(q); if (!(q == p)) out.push_back(q); };
        with([](Cfg& d) { d.tdamp = 0; });
        with([](Cfg& d) { d.shiftx = d.shifty = 0; });
        with([](Cfg& d) { d.grid = 12; });
        with([](Cfg& d) { d.interp = 4; d.deriv = 4; d.clamp = false; d.zoom = 1; d.pssize = 12; d.linearRF = true; });
        with([](Cfg& d) { Derived dd = derive(d); if (dd.laststep > 2) d.rotations = (dd.laststep - 1 - 0.5) / dd.steps; });
        if (p.get("mode") == "prog_wake") with([](Cfg& d) { std::vector<double> v; for (double x : d.currents) if (x > 0) v.push_back(x); if (v.size() >= 2) d.currents = v; });
        return out;
    }
};

ScenarioRegistrar reg(new C08());

} // namespace
} // namespace sim
