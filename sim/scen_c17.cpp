// C17: no configuration or input file makes the program touch memory it does not own.
// Sanitised (clang ASan+UBSan; valgrind in the thorough tier) launches of the real main() over the documented
// configuration domain, with simulator-authored input files damaged by explicit, shrinkable fault ops.
#include "common.hpp"
#include <csignal>
#include <fcntl.h>
#include <sys/wait.h>
#include <unistd.h>

namespace sim {
namespace {

struct C17 : Scenario {
    const char* id() const override { return "C17"; }
    long default_runs(const std::string& tier) const override { return tier == "quick" ? 320 : 50000; }
    const char* rule() const override {
        return "one evaluation = one sanitised launch of the real main(); configuration drawn from the documented domain (grid 8-96 even/odd, "
               "interpolation 1-4, derivation 3/4, FPType/FPTrack 0-3, padding any real with/without rounding, 1-5 buckets with empties, harmonic "
               "numbers keeping buckets apart, shifts up to half a grid, kicks up to several grid widths, RF noise/modulation, all impedance "
               "switches, zoom 0.2-3) and input files with fault ops (impedance tables of 0,1,n/2-1,n/2,n,3n rows, repeated indices, non-numeric "
               "tokens, CRLF, missing final newline, NaN/inf; tracking files with edge/outside particles, 10^4 particles, garbage; .txt start "
               "files incl. empty and far-outside coordinates; .h5 start files of other grid size, rank 2/3/4, zero records, truncated; read "
               "errors and short reads); distinct_nontrivial counts distinct (fault kind set, wake kind, buckets, padding class, interpolation) keys";
    }
    const char* measure() const override { return "distinct (fault ops, wake kind, bucket pattern class, padding class, interpolation, RF class) keys"; }
    std::vector<std::string> assumptions() const override {
        return {"ASan/UBSan see out-of-bounds, use-after-free and UB they instrument; use of uninitialised values is visible only in the valgrind tier",
                "float-cast-overflow is not enabled: the maps rely on wrap-around of negative float->unsigned conversions (named as mechanism by the property)",
                "bucket spacing >= grid width (the property's proviso); rotations and grid sizes bounded for run time"};
    }

    Plan generate(uint64_t seed, long index, const std::string& tier) const override {
        Rng r(seed);
        Plan p;
        // the valgrind batch (indices from 500000) is there for what ASan cannot see, use of uninitialised values; that lives in
        // the readers of the three kinds of input file, so every run of that batch carries damaged input files
        const bool vg = index >= 500000;
        // "... and of the API harness": a sixth of the sanitised runs execute a seeded API-mode plan of another scenario (operation
        // histories on the field object, map applications on bunch trains, particle histories, the dynamic RF map) in a child of the
        // sanitised build; only memory safety is judged here, the functional verdict on those plans belongs to their own checks
        if (!vg && r.chance(0.17)) {
            static const std::vector<std::pair<std::string, std::vector<std::string>>> subs = {
                {"C18", {}}, {"C18", {}}, {"C08", {"api_map"}}, {"C15", {"flow", "bounds"}}, {"C19", {"api_zero", "api_recorded"}}};
            auto& sub = subs[(size_t)r.range(0, (long)subs.size() - 1)];
            Scenario* sc = find_scenario(sub.first);
            if (sc) for (int t = 0; t < 40; t++) {
                uint64_t ss = r.u64();
                Plan q = sc->generate(ss, index, tier);
                bool okmode = sub.second.empty();
                for (auto& m : sub.second) if (q.get("mode") == m) okmode = true;
                if (!okmode) continue;
                if (q.has("nsteps") && q.geti("nsteps") > 3000) q.seti("nsteps", 3000);   // (particle histories: run time under ASan)
                if (q.has("M")) continue;
                p.set("mode", "api"); p.set("sub.id", sub.first); p.set("sub.mode", q.get("mode")); p.set("sub.plan", q.text());
                return p;
            }
        }
        SwarmOpts o;
        o.max_grid = tier == "quick" ? 40 : 96; o.min_grid = 8;
        o.max_rot_steps = tier == "quick" ? 6 : 14; o.min_rot_steps = 0;
        o.allow_interp1 = true;
        Cfg c = swarm_cfg(r, o);
        // widen to the documented domain
        c.padding = r.chance(0.3) ? r.uniform(0.2, 2) : (r.chance(0.5) ? (double)r.range(1, 8) : r.uniform(1, 8));
        if (r.chance(0.3)) { c.shiftx = r.uniform(-0.5, 0.5) * c.grid; c.shifty = r.uniform(-0.5, 0.5) * c.grid; }
        c.zoom = r.chance(0.5) ? 1 : r.uniform(0.2, 3);
        if (r.chance(0.2)) c.VRF = r.loguniform(1e5, 5e7);
        if (r.chance(0.15)) { c.rf_mod_ampl = r.uniform(1, 60); c.rf_mod_freq = 3e4; }
        if (r.chance(0.1)) { c.rf_phase_spread = r.uniform(0.1, 20); }
        if (r.chance(0.1)) c.rf_ampl_spread = r.uniform(0.01, 0.5);
        if (r.chance(0.4)) {
            long nbk = r.range(2, 5);
            c.currents.clear();
            bool any = false;
            for (long i = 0; i < nbk; i++) { if (r.chance(0.35)) c.currents.push_back(0); else { c.currents.push_back(r.uniform(0.2e-3, 4e-3)); any = true; } }
            if (!any) c.currents[(size_t)r.range(0, nbk - 1)] = 1e-3;
        }
        if (r.chance(0.4)) {
            // harmonic number: keep the bucket spacing >= the grid width
            for (int tries = 0; tries < 20; tries++) {
                c.H = (double)r.pick(std::vector<long>{r.range(20, 400), r.range(400, 4000), 50, 65, 184});
                if (derive(c).spacing_ps >= 1.0) break;
                c.H = 50;
            }
        }
        // risk region named by the property's anchor "padded length >= last bucket offset + grid width":
        // many buckets, the first listed (= farthest) one occupied, unrounded padding, a wake, arbitrary spacing
        if (r.chance(0.15)) {
            long nbk = r.range(4, 6);
            c.currents.assign((size_t)nbk, 0.0);
            c.currents[0] = r.uniform(0.3e-3, 2e-3);
            for (long i = 1; i < nbk; i++) if (r.chance(0.5)) c.currents[(size_t)i] = r.uniform(0.3e-3, 2e-3);
            c.roundpad = false;
            if (c.gap == 0) c.gap = 0.03;
            c.grid = r.range(8, 24);
            for (int tries = 0; tries < 20; tries++) { c.H = (double)r.range(20, 600); if (derive(c).spacing_ps >= 1.0) break; c.H = 50; }
        }
        // long histories on a tiny grid: per-step tables and queues (RF modulation, tracks, record buffers) are filled and consumed
        // in blocks; step counts are placed just past powers of two so that a block boundary is crossed
        bool longrun = !vg && r.chance(0.07);
        if (longrun) {
            c.grid = r.range(8, 10); c.steps = r.range(50, 200);
            long base = r.pick(std::vector<long>{1024, 2048, 4096, 8192, 16384, 16384, 32768, 65536});
            if (tier == "quick" && base > 16384 && r.chance(0.7)) base = 16384;
            long nsteps = base + r.range(1, 40) + (r.chance(0.3) ? r.range(0, 3000) : 0);
            c.rotations = (nsteps - 0.5) / (double)c.steps;
            c.outstep = r.pick(std::vector<long>{0, 4096, nsteps / 3 + 1, 1000});
            c.saveps = 0; c.gap = 0; c.wallcond = 0; c.collimator = 0; c.currents = {1e-3};
            if (r.chance(0.8) && c.rf_mod_ampl == 0 && c.rf_phase_spread == 0 && c.rf_ampl_spread == 0) {
                int k = (int)r.range(0, 2);
                if (k == 0) { c.rf_mod_ampl = r.uniform(0.1, 2); c.rf_mod_freq = 3e4; } else if (k == 1) c.rf_phase_spread = r.uniform(0.01, 1); else c.rf_ampl_spread = r.uniform(1e-4, 1e-2);
            }
        }
        if (!longrun && r.chance(0.2)) c.steps_per_rev = r.uniform(0.05, 0.5);
        if (r.chance(0.1)) c.outstep = 0;
        if (!longrun && r.chance(0.2)) c.fs = r.uniform(5e3, 8e4);
        if (longrun) p.seti("longrun", 1);
        // run-time bound of the harness (not of the property): very short natural bunch lengths make the bucket spacing,
        // hence the transform length, explode (impedance models over 10^5..10^6 frequencies take minutes under ASan)
        {
            const size_t cap = vg ? 2048 : tier == "quick" ? 20000 : 70000;   // (valgrind runs ~50x slower: short transforms there)
            if (derive(c).wake_nmax > cap || derive(c).padded_bins > cap) { c.fs = 0; c.VRF = 1e6; }
            if (derive(c).wake_nmax > cap) c.H = 50;
            if (derive(c).wake_nmax > cap) { c.currents.resize(std::min<size_t>(c.currents.size(), 3)); if (c.currents[0] <= 0) c.currents[0] = 1e-3; }
            if (derive(c).wake_nmax > cap) c.grid = std::min(c.grid, 24L);
        }
        Derived d = derive(c);
        std::string ops;
        auto addop = [&](const std::string& s) { ops += (ops.empty() ? "" : ",") + s; };
        // ---- impedance file
        if (r.chance(vg ? 0.7 : 0.45)) {
            c.impedance = "imp.dat";
            size_t N = d.wake_nmax;
            std::vector<long> rowsopt = {0, 1, (long)N / 2 - 1, (long)N / 2, (long)N, 3 * (long)N, r.range(2, (long)N)};
            long rows = std::max(0L, r.pick(rowsopt));
            if (rows > 40000) rows = 40000;
            std::string t = gen_impedance(r, rows, r.chance(0.5) ? 10 : 1e4);
            addop("imp_rows" + std::to_string(rows) + "of" + std::to_string(N));
            if (r.chance(0.15) && rows > 2) { // repeated row numbers
                auto lines = split(t, '\n'); std::string t2;
                for (size_t i = 0; i < lines.size(); i++) { t2 += lines[i] + "\n"; if (i % 3 == 0 && !lines[i].empty()) t2 += lines[i] + "\n"; }
                t = t2; addop("imp_repeated");
            }
            if (r.chance(0.15)) { size_t pos = t.size() / 2; t.insert(pos, " abc xyz "); addop("imp_nonnumeric"); }
            if (r.chance(0.1)) { t += "garbage trailing tokens 1 2\n"; addop("imp_trailing_garbage"); }
            if (r.chance(0.1)) { std::string t2; for (char ch : t) { if (ch == '\n') t2 += "\r\n"; else t2 += ch; } t = t2; addop("imp_crlf"); }
            if (r.chance(0.15) && !t.empty() && t.back() == '\n') { t.pop_back(); addop("imp_no_final_newline"); }
            if (r.chance(0.1)) { t += std::to_string(rows) + "\tnan\tinf\n"; addop("imp_nan_inf"); }
            if (r.chance(0.08)) { t = t.substr(0, (size_t)r.range(0, (long)t.size())); addop("imp_truncated"); }
            plan_file(p, "imp.dat", t);
        }
        // ---- tracking file
        if (r.chance(vg ? 0.6 : 0.4)) {
            c.tracking = "track.txt";
            std::string t;
            int k = (int)r.range(0, 4);
            if (longrun && k == 3) k = 1;
            if (k == 0) { t = gen_tracking(r, c, r.range(1, 6)); addop("trk_interior"); }
            else if (k == 1) { // exactly on edges and corners
                for (auto q : {d.qmin, d.qmax}) for (auto pp : {d.pmin, d.pmax, (d.pmin + d.pmax) / 2}) t += fmt_g(q, 9) + " " + fmt_g(pp, 9) + "\n";
                t += fmt_g((d.qmin + d.qmax) / 2, 9) + " " + fmt_g(d.pmax, 9) + "\n";
                addop("trk_edges");
            } else if (k == 2) { for (int i = 0; i < 6; i++) t += fmt_g(r.uniform(-100, 100), 6) + " " + fmt_g(r.uniform(-100, 100), 6) + "\n"; t += "1e30 -1e30\nnan nan\n"; addop("trk_outside"); }
            else if (k == 3) { t = gen_tracking(r, c, 10000); addop("trk_10000"); }
            else { t = "hello world\n1.0\n2.0 x\n"; addop("trk_garbage"); }
            plan_file(p, "track.txt", t);
        }
        // ---- start distribution
        double u = r.unit();
        if (vg) u *= 0.5;      // start file in 60 % of the valgrind runs (text 24 %, HDF5 36 %)
        if (u < 0.12) {
            c.startfile = "start.txt";
            std::string t;
            int k = (int)r.range(0, 3);
            if (k == 0) { addop("txt_empty"); }
            else if (k == 1) { for (int i = 0; i < 200; i++) t += fmt_g(r.uniform(-2, 2), 5) + " " + fmt_g(r.uniform(-2, 2), 5) + "\n"; addop("txt_interior"); }
            else if (k == 2) { for (int i = 0; i < 50; i++) t += fmt_g(r.uniform(-30, 30), 5) + " " + fmt_g(r.uniform(-30, 30), 5) + "\n"; t += "-3.2 2.8\n-1e9 1e9\n"; addop("txt_far_outside"); }
            else { t = "1 2 3\nx y\n"; addop("txt_garbage"); }
            plan_file(p, "start.txt", t);
        } else if (u < 0.3) {
            c.startfile = "start.h5";
            if (r.chance(0.5)) c.currents = {1e-3};   // (a start file forces one bunch; several currents with it are still accepted)
            int k = (int)r.range(0, 11);     // 7..9: the right shape stored with another element type; 10, 11: results files of multi-bunch legs
            p.seti("h5start.kind", k);
            p.seti("h5start.arg", r.range(0, 1000000));
            addop("h5start_kind" + std::to_string(k));
        }
        // ---- read faults on a text input
        if (r.chance(0.1) && (!c.impedance.empty() || !c.tracking.empty())) {
            p.set("rfault.path", !c.impedance.empty() ? "imp.dat" : "track.txt");
            p.seti("rfault.kind", r.range(1, 3));
            p.seti("rfault.nth", r.range(0, 2));
            addop("read_fault_kind" + p.get("rfault.kind"));
        }
        c.to_plan(p);
        p.set("ops", ops);
        p.setu("entropy", r.u64());
        p.seti("planner", 0);
        return p;
    }

    // one API-mode plan of another scenario in a forked child: exit 77 = sanitizer report, signal = crash, else fine
    Outcome run_api(const Plan& plan, RunCtx& rc) const {
        Outcome o;
        Scenario* sc = find_scenario(plan.get("sub.id"));
        if (!sc) { o.set_infra("unknown sub-scenario"); return o; }
        Plan sub = Plan::parse(plan.get("sub.plan"));
        std::string errf = rc.workdir + "/api.err";
        fflush(nullptr);
        pid_t pid = fork();
        if (pid < 0) { o.set_infra("fork failed"); return o; }
        if (pid == 0) {
            int fe = open(errf.c_str(), O_WRONLY | O_CREAT | O_TRUNC, 0666), fo = open("/dev/null", O_WRONLY);
            if (fe >= 0) { dup2(fe, 2); close(fe); } if (fo >= 0) { dup2(fo, 1); close(fo); }
            for (int sg : {SIGSEGV, SIGBUS, SIGFPE, SIGILL, SIGABRT}) signal(sg, SIG_DFL);
            alarm(240);
            RunCtx c2; c2.workdir = rc.workdir + "/sub"; c2.tier = rc.tier; make_dir(c2.workdir);
            Outcome so = sc->run(sub, c2);
            (void)so;
            fflush(nullptr);
            _exit(0);
        }
        int status = 0;
        while (waitpid(pid, &status, 0) < 0 && errno == EINTR) {}
        std::string err = read_file(errf);
        o.launches = 0; o.checks = 1;
        std::string ctx = " [API harness: " + plan.get("sub.id") + " " + plan.get("sub.mode") + " plan]";
        if (WIFSIGNALED(status)) {
            if (WTERMSIG(status) == SIGALRM) o.fail("C17.hang", "API-mode plan did not end within 240 s" + ctx);
            else o.fail("C17.killed_by_signal", "the code under test died with signal " + std::to_string(WTERMSIG(status)) + "; stderr: " + tail(err, 400) + ctx);
        } else if (WIFEXITED(status) && (WEXITSTATUS(status) == 77 || WEXITSTATUS(status) == 78)) {
            std::string first, site;
            for (auto& line : split(err, '\n')) if (contains(line, "ERROR: AddressSanitizer") || contains(line, "runtime error") || contains(line, "Invalid") || contains(line, "uninitialised")) { first = line; break; }
            for (auto& line : split(err, '\n')) if (contains(line, "/src/") || contains(line, "/inc/")) { site = line; break; }
            o.fail("C17.sanitizer", (first.empty() ? tail(err, 300) : first.substr(0, 300)) + " at " + site.substr(0, 200) + ctx);
        } else if (!WIFEXITED(status) || WEXITSTATUS(status) != 0) o.fail("C17.exit_status", "API-mode child ended with status " + std::to_string(WEXITSTATUS(status)) + ctx);
        o.probe("reach.api_harness." + plan.get("sub.id"));
        o.probe("cls.api." + plan.get("sub.id") + "." + plan.get("sub.mode"));
        o.nontrivial = true;
        o.mixfp(hash_str(plan.get("sub.plan"))); o.mixfp((uint64_t)status);
        o.sample = "API harness " + plan.get("sub.id") + " " + plan.get("sub.mode") + " -> status " + std::to_string(status);
        return o;
    }

    Outcome run(const Plan& plan, RunCtx& rc) const override {
        if (plan.get("mode") == "api") return run_api(plan, rc);
        Outcome o;
        Cfg cfg = Cfg::from_plan(plan);
        Derived d = derive(cfg);
        stage_inputs(plan, rc.workdir);
        if (plan.has("h5start.kind")) {
            unsigned long long n = (unsigned long long)cfg.grid;
            long arg = plan.geti("h5start.arg");
            Rng g((uint64_t)arg);
            auto data = [&](size_t cnt) { std::vector<float> v(cnt); for (auto& x : v) x = (float)g.unit(); return v; };
            std::string f = rc.workdir + "/start.h5";
            switch (plan.geti("h5start.kind")) {
            case 0: h5_write_f32(f, "/PhaseSpace/data", {2, n, n}, data(2 * n * n)); break;                         // good, rank 3
            case 1: h5_write_f32(f, "/PhaseSpace/data", {2, 1, n, n}, data(2 * n * n)); break;                      // good, rank 4
            case 2: { unsigned long long m = (arg % 2) ? n + 1 + (unsigned long long)(arg % 7) : std::max<unsigned long long>(4, n - 1 - (unsigned long long)(arg % 5)); h5_write_f32(f, "/PhaseSpace/data", {1, m, m}, data(m * m)); break; }   // other grid size: larger or smaller
            case 3: h5_write_f32(f, "/PhaseSpace/data", {0, n, n}, {}); break;                                     // zero records
            case 4: h5_write_f32(f, "/PhaseSpace/data", {n, n}, data(n * n)); break;                               // rank 2
            case 5: { h5_write_f32(f, "/PhaseSpace/data", {3, n, n}, data(3 * n * n)); std::string s = read_file(f); write_file(f, s.substr(0, 8 + (size_t)arg % (s.size() - 8))); break; } // torn
            case 7: h5_write_as(f, "/PhaseSpace/data", {2, n, n}, data(2 * n * n), 'd'); break;                   // float64 (numpy/h5py default, double-precision build)
            case 8: h5_write_as(f, "/PhaseSpace/data", {1, n, n}, data(n * n), arg % 2 ? 'q' : 'i'); break;       // integers
            case 9: h5_write_as(f, "/PhaseSpace/data", {2, n, n}, data(2 * n * n), 'h'); break;                   // big-endian float32
            case 10: { unsigned long long nb = 2 + (unsigned long long)(arg % 3); h5_write_f32(f, "/PhaseSpace/data", {2, nb, n, n}, data(2 * nb * n * n)); break; }      // square grids of the right size, 2-4 bunches
            case 11: { unsigned long long h = std::max<unsigned long long>(4, n / 2); h5_write_f32(f, "/PhaseSpace/data", {1, 4, h, h}, data(4 * h * h)); break; }         // 4 bunches at half the grid size: as many values as one bunch at the full size
            default: { unsigned long long m = n > 9 ? n - 3 : n + 2; h5_write_f32(f, "/PhaseSpace/data", {1, 2, m, n}, data(2 * m * n)); break; }        // non-square, 2 bunches
            }
        }
        Launch l = make_launch(cfg, rc.workdir, "run", plan.getu("entropy"), (int)plan.geti("planner"));
        l.timeout_s = 240;
        if (plan.has("rfault.path")) { l.rt.fault_path = plan.get("rfault.path"); l.rt.fault_kind = (int)plan.geti("rfault.kind"); l.rt.fault_nth = plan.geti("rfault.nth"); }
        LaunchResult r = run_launch(l);
        o.launches = 1; o.checks = 1;
        o.simsteps = r.sumi("steps_done"); o.simperiods = o.simsteps / d.steps;
        std::string ops = plan.get("ops");
        std::string ctx = " [" + cfg.summary() + " ops=" + ops + "]";
        if (r.sumi("faults_fired") > 0) o.fault("read_fault_kind" + plan.get("rfault.kind"), r.sumi("faults_fired"));
        for (auto& op : split(ops, ',')) if (!op.empty()) { std::string k = op; size_t dg = k.find_first_of("0123456789"); if (starts_with(k, "imp_rows")) k = "imp_rows"; else if (dg != std::string::npos && !starts_with(k, "h5start") && !starts_with(k, "read_fault") && !starts_with(k, "trk_10000")) k = k.substr(0, dg); o.fault("file_" + k); }
        if (r.timed_out) o.fail("C17.hang", "no end within " + std::to_string(l.timeout_s) + " s" + ctx);
        else if (!r.exited) o.fail("C17.killed_by_signal", "process died with signal " + std::to_string(r.sig) + "; stderr: " + tail(r.err, 400) + ctx);
        else if (r.code == 77 || r.code == 78) {
            // first line of the sanitizer report names the error class and site
            std::string first;
            for (auto& line : split(r.err, '\n')) if (contains(line, "ERROR: AddressSanitizer") || contains(line, "runtime error") || contains(line, "Invalid") || contains(line, "uninitialised")) { first = line; break; }
            std::string site;
            for (auto& line : split(r.err, '\n')) if (contains(line, "/repo/")) { site = line; break; }
            o.fail("C17.sanitizer", (first.empty() ? tail(r.err, 300) : first.substr(0, 300)) + " at " + site.substr(0, 200) + ctx);
        } else if (r.code != 0 && r.code != 1) o.fail("C17.exit_status", "exit status " + std::to_string(r.code) + "; stderr: " + tail(r.err, 300) + ctx);
        else {
            std::string all = r.out + r.err;
            bool done = log_has(r.out, "Finished.") || log_has(r.out, "Aborted.");
            bool msg = log_has(all, "rror") || log_has(all, "not ") || log_has(all, "quit") || log_has(all, "Please") || log_has(all, "Unknown") || log_has(all, "HDF5-DIAG") || log_has(all, "Nothing to do");
            if (!done && !msg) o.fail("C17.silent_stop", "stopped without completing and without a message; output: " + tail(all, 300) + ctx);
            if (done) o.probe("reach.completed"); else o.probe("reach.stopped_with_message");
        }
        // reach probes
        size_t N = d.wake_nmax;
        if (contains(ops, "imp_rows")) { long rows = atol(ops.c_str() + ops.find("imp_rows") + 8); if ((size_t)rows < N) o.probe("reach.table_shorter_than_grid"); else if ((size_t)rows > N) o.probe("reach.table_longer_than_grid"); }
        if (cfg.padding < 2) o.probe("reach.padding_below_2");
        if (!cfg.roundpad && d.nbuckets >= 4) o.probe("reach.unrounded_padding_4plus_buckets");
        if (d.nbuckets > 1 && d.nbunches < d.nbuckets) o.probe("reach.empty_buckets");
        if (cfg.grid % 2) o.probe("reach.odd_grid");
        if (cfg.interp == 1) o.probe("reach.interp1");
        if (plan.geti("longrun", 0)) o.probe(d.laststep > 16384 ? "reach.more_than_16384_steps" : d.laststep > 4096 ? "reach.more_than_4096_steps" : "reach.more_than_1024_steps");
        std::string wk = !d.has_wake ? "nowake" : !cfg.impedance.empty() ? "file" : cfg.gap < 0 ? "free" : cfg.wallcond > 0 ? "rw" : cfg.collimator > 0 ? "coll" : "pp";
        std::string opkinds;
        for (auto& op : split(ops, ',')) { std::string k = op; if (starts_with(k, "imp_rows")) k = "imp_rows"; opkinds += (opkinds.empty() ? "" : "+") + k; }
        o.probe("cls." + opkinds + "|" + wk + ".b" + std::to_string(d.nbunches) + "of" + std::to_string(d.nbuckets) + (cfg.padding < 2 ? ".padlt2" : cfg.roundpad ? ".padr" : ".padu") + ".ip" + std::to_string(cfg.interp) + (d.dynamic_rf ? ".dyn" : ""));
        o.nontrivial = !ops.empty() || d.nbuckets > 1;
        o.mixfp(r.evhash()); o.mixfp((uint64_t)(r.exited ? r.code : 1000 + r.sig));
        o.sample = cfg.summary() + " ops=" + ops + " -> " + r.describe();
        return o;
    }

    std::vector<Plan> shrink_candidates(const Plan& p, const Outcome& last) const override {
        std::vector<Plan> out;
        if (p.get("mode") == "api") {
            // shrink the embedded plan with its own scenario's moves
            Scenario* sc = find_scenario(p.get("sub.id"));
            if (sc) for (auto& q : sc->shrink_candidates(Plan::parse(p.get("sub.plan")), last)) { Plan n = p; n.set("sub.plan", q.text()); out.push_back(n); }
            return out;
        }
        Cfg c = Cfg::from_plan(p);
        auto with = [&](std::function<void(Cfg&, Plan&)> f) { Cfg d = c; Plan q = p; f(d, q); d.to_plan(q); if (!(q == p)) out.push_back(q); };
        auto dropop = [](Plan& q, const std::string& prefix) { std::vector<std::string> keep; for (auto& op : split(q.get("ops"), ',')) if (!op.empty() && !starts_with(op, prefix)) keep.push_back(op); q.set("ops", join(keep, ",")); };
        if (p.has("rfault.path")) { Plan q = p; q.erase("rfault.path"); q.erase("rfault.kind"); q.erase("rfault.nth"); dropop(q, "read_fault"); out.push_back(q); }
        with([&](Cfg& d, Plan& q) { d.tracking = ""; q.erase("file.track.txt"); dropop(q, "trk_"); });
        with([&](Cfg& d, Plan& q) { d.impedance = ""; q.erase("file.imp.dat"); dropop(q, "imp_"); });
        with([&](Cfg& d, Plan& q) { d.startfile = ""; q.erase("file.start.txt"); q.erase("h5start.kind"); q.erase("h5start.arg"); dropop(q, "txt_"); dropop(q, "h5start"); });
        with([](Cfg& d, Plan&) { double first = 1e-3; for (double x : d.currents) if (x > 0) { first = x; break; } d.currents = {first}; });
        with([](Cfg& d, Plan&) { d.gap = 0; d.wallcond = 0; d.collimator = 0; d.useCSR = true; });
        with([](Cfg& d, Plan&) { d.rf_mod_ampl = d.rf_mod_freq = d.rf_phase_spread = d.rf_ampl_spread = 0; });
        with([](Cfg& d, Plan&) { d.tdamp = 0; });
        with([](Cfg& d, Plan&) { d.shiftx = d.shifty = 0; });
        with([](Cfg& d, Plan&) { d.H = 50; d.fs = 0; d.steps_per_rev = 0; d.VRF = 1e6; });
        with([](Cfg& d, Plan&) { d.padding = 2; d.roundpad = true; });
        with([](Cfg& d, Plan&) { d.zoom = 1; d.interp = 4; d.deriv = 4; d.clamp = false; d.linearRF = true; d.renorm = 0; d.saveps = 0; d.outstep = 1; d.verbose = false; d.pssize = 12; });
        with([](Cfg& d, Plan&) { d.grid = 12; });
        with([](Cfg& d, Plan&) { Derived dd = derive(d); if (dd.laststep > 0) d.rotations = dd.laststep > 1 ? (dd.laststep - 1 - 0.5) / dd.steps : 0; });
        return out;
    }
};

ScenarioRegistrar reg(new C17());

} // namespace
} // namespace sim
