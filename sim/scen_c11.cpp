// C11: continuing from a results file equals never having stopped; unusable start files are refused.
// Each leg is a separate process life; only the results file survives. For short runs EVERY split
// point is taken (fault enumeration over crash points), leg 1 ending normally or by SIGINT.
#include "common.hpp"
#include <cstring>
#include <unistd.h>

namespace sim {
namespace {

struct C11 : Scenario {
    const char* id() const override { return "C11"; }
    const char* level() const override { return "fault_enumeration"; }
    long default_runs(const std::string& tier) const override { return tier == "quick" ? 32 : 1500; }
    const char* rule() const override {
        return "one evaluation = one (leg 1, leg 2) pair compared with the uninterrupted reference run, or one start-file fault launch; "
               "per sampled configuration every split point T1 in 1..S-1 is taken (leg 1 ended normally or by SIGINT, start record chosen by "
               "default / positive / negative index); distinct_nontrivial counts distinct (split class, leg-1 ending, record choice, "
               "renormalisation mode, wake?) tuples plus distinct start-file fault kinds that fired";
    }
    const char* measure() const override { return "distinct (split class, ending, record choice, renorm mode, wake) tuples and fault kinds"; }
    std::vector<std::string> assumptions() const override {
        return {"static RF, single bunch, same grid, and T1 a multiple of RenormalizeCharge when that is > 0 (the restrictions the property's wording implies)",
                "bit-exact equivalence is demanded only with RenormalizeCharge < 0; otherwise the start applies one renormalisation by design and a relative tolerance of 1e-5 of the maximum is used",
                "configurations are sampled; split points of each sampled configuration are enumerated completely"};
    }

    Plan generate(uint64_t seed, long, const std::string& tier) const override {
        Rng r(seed);
        Plan p;
        SwarmOpts o;
        o.allow_multibunch = false; o.allow_dynrf = false; o.allow_tracking = false;
        o.max_grid = tier == "quick" ? 28 : 48; o.min_grid = 10;
        o.min_rot_steps = 4; o.max_rot_steps = tier == "quick" ? 18 : 40;
        Cfg c = swarm_cfg(r, o);
        c.outstep = 1; c.saveps = 1; c.verbose = false;
        c.renorm = r.pick(std::vector<long>{-1, -1, -1, 0, 0, 2, 3, 5});
        // "impedances below threshold" (the property's proviso) matters where equivalence holds only within rounding: an unstable
        // beam amplifies the 1e-7 rounding of the start's renormalisation (thorough tier: 1.3e-5 after 19 steps at 3 mA).
        // Bit-exact cases (no renormalisation) keep the strong wakes.
        if (c.renorm >= 0) for (auto& cur : c.currents) cur = std::round(cur * 0.1 * 1e7) / 1e7;
        else if (r.chance(0.35)) { wild_cfg(r, c); c.rf_mod_ampl = c.rf_mod_freq = 0; p.seti("wild", 1); }   // bit-exact cases need no error model: any configuration will do
        c.to_plan(p);
        p.setu("entropy", r.u64());
        p.seti("planner", 0);
        p.setu("sseed", r.u64());
        p.set("splits", "");   // all
        // start-file faults tried in this run
        std::vector<std::string> kinds = {"missing", "empty", "trunc", "garbage", "nops", "multibunch", "eio", "short", "gridsize", "norecords", "notfloat", "eacces", "multibunch_samecount", "multibunch"};
        std::string f;
        long nf = r.range(2, 4);
        for (long i = 0; i < nf; i++) { if (i) f += ","; f += r.pick(kinds) + ":" + std::to_string(r.range(0, 100000)); }
        p.set("faults", f);
        return p;
    }

    struct X {
        RunCtx* rc; Outcome* o; Cfg cfg; Derived d; uint64_t entropy; int planner;
        H5Snap ref; std::vector<long> stepdone_idx;  // global hook index of the k-th step_done
        unsigned S;
        double drift = 0;   // max relative deviation of the total charge over the reference run's records
    };

    static bool launch_ok(X& x, const Cfg& c, const std::string& tag, LaunchResult& r, H5Snap& s, const std::vector<long>& sig = {}) {
        Launch l = make_launch(c, x.rc->workdir, tag, x.entropy, x.planner);
        l.rt.sigint_points = sig;
        r = run_launch(l);
        x.o->launches++;
        x.o->simsteps += r.sumi("steps_done");
        if (!r.exited || r.code != 0) return false;
        s = h5_read(x.rc->workdir + "/" + c.output);
        return s.ok;
    }

    // compare final phase space (and derived datasets of the final record) of leg 2 with the reference
    void compare_final(X& x, const H5Snap& leg2, const std::string& what, bool exact) const {
        Outcome& o = *x.o;
        size_t ra = leg2.rows(PS_DATA), rb = x.ref.rows(PS_DATA);
        if (!ra || !rb) { o.fail("C11.equivalence", what + ": missing final phase space"); return; }
        o.checks++;
        if (exact) {
            std::string e = cmp_row(leg2, ra - 1, x.ref, rb - 1, PS_DATA);
            if (!e.empty()) { o.fail("C11.equivalence", what + ": final phase space differs from the uninterrupted run: " + e); return; }
            for (auto nme : {"/BunchProfile/data", "/EnergyProfile/data", "/BunchLength/data", "/EnergySpread/data", "/BunchPosition/data",
                             "/EnergyAverage/data", "/BunchPopulation/data", "/WakePotential/data", "/CSR/Intensity/data", "/CSR/Spectrum/data"}) {
                if (!leg2.has(nme) || leg2.rows(nme) == 0) continue;
                std::string e2 = cmp_row(leg2, leg2.rows(nme) - 1, x.ref, x.ref.rows(nme) - 1, nme);
                if (!e2.empty()) { o.fail("C11.equivalence_derived", what + ": final record differs: " + e2); break; }
            }
        } else {
            auto a = leg2.get(PS_DATA); auto b = x.ref.get(PS_DATA);
            size_t n = a->rowlen();
            if (n != b->rowlen()) { o.fail("C11.equivalence", what + ": grid sizes differ"); return; }
            double mx = 0, md = 0;
            for (size_t i = 0; i < n; i++) {
                double u = a->at((ra - 1) * n + i), v = b->at((rb - 1) * n + i);
                mx = std::max(mx, std::fabs(v)); md = std::max(md, std::fabs(u - v));
            }
            // With periodic renormalisation the continued run computes its first wake from the already renormalised
            // profile, the uninterrupted run from the profile before renormalising: an O(charge drift) difference that
            // is inherent in restarting, not a defect. The drift is measured on the reference run itself.
            double allowed = 1e-5 * mx;   // (the wake is computed after renormalising, so the restart sees the same wake as the uninterrupted run)
            if (!(md <= allowed)) o.fail("C11.equivalence", what + ": final phase space differs from the uninterrupted run by " + fmt_g(md, 4) + " (max value " + fmt_g(mx, 4) + ", allowed " + fmt_g(allowed, 4) + ", measured charge drift " + fmt_g(x.drift, 3) + ")");
        }
    }

    // first stored phase space of leg 2 vs the chosen record of leg 1
    void compare_loading(X& x, const H5Snap& leg1, size_t rec, const H5Snap& leg2, const std::string& what, bool exact) const {
        Outcome& o = *x.o;
        o.checks++;
        if (leg2.rows(PS_DATA) == 0) { o.fail("C11.loading", what + ": leg 2 stored no phase space"); return; }
        if (exact) {
            std::string e = cmp_row(leg1, rec, leg2, 0, PS_DATA);
            if (!e.empty()) o.fail("C11.loading", what + ": first phase space of the continued run is not the stored record " + std::to_string(rec) + ": " + e);
            return;
        }
        auto a = leg1.get(PS_DATA); auto b = leg2.get(PS_DATA);
        size_t n = a->rowlen();
        if (n != b->rowlen()) { o.fail("C11.loading", what + ": grid sizes differ"); return; }
        double sa = 0, sb = 0;
        for (size_t i = 0; i < n; i++) { sa += a->at(rec * n + i); sb += b->at(i); }
        double s = sb / sa;
        // the start-up renormalisation of a loaded grid is an identity up to rounding (observed: |s-1| <= 2e-7): the uninterrupted
        // run does not rescale at this step either, so a factor that follows the stored record's drifted charge is not "the stored values"
        if (!(std::fabs(s - 1) <= 2e-6)) { o.fail("C11.loading", what + ": loaded data scaled by " + fmt_g(s, 9)); return; }
        for (size_t i = 0; i < n; i++) {
            double u = a->at(rec * n + i) * s, v = b->at(i);
            double tol = 4 * 1.1920929e-7 * std::fabs(v) + 1e-30;
            if (std::fabs(u - v) > tol) { o.fail("C11.loading", what + ": loaded record is not the stored one up to a uniform factor (cell " + std::to_string(i) + ": " + fmt_g(u, 9) + " vs " + fmt_g(v, 9) + ")"); return; }
        }
    }

    void do_split(X& x, unsigned T1, Rng r) const {
        Outcome& o = *x.o;
        const Cfg& base = x.cfg;
        bool exact = base.renorm < 0;
        // --- leg 1
        bool by_sigint = r.chance(0.4);
        int recmode = (int)r.range(0, 3);       // 0,1: default (last), 2: explicit positive index, 3: negative index
        long o1 = r.pick(std::vector<long>{1, 2, 3});
        Cfg c1 = base;
        c1.output = "leg1.h5";
        c1.outstep = o1; c1.saveps = recmode >= 2 ? 1 : r.pick(std::vector<long>{0, 1, 2});
        std::vector<long> sig;
        if (by_sigint) { sig.push_back(x.stepdone_idx[T1 - 1]); }
        else c1.rotations = (T1 - 0.5) / x.d.steps;
        LaunchResult r1; H5Snap leg1;
        if (!launch_ok(x, c1, "leg1", r1, leg1, sig) || (unsigned)r1.sumi("steps_done") != T1) {
            o.set_infra("leg 1 (T1=" + std::to_string(T1) + (by_sigint ? ", sigint" : "") + ") failed: " + r1.describe() + " steps " + std::to_string(r1.sumi("steps_done")) + " " + tail(r1.err));
            return;
        }
        if (by_sigint) o.fault("sigint_ends_leg1");
        // --- choose record
        size_t nrec = leg1.rows(PS_DATA);
        auto ax = leg1.get(PS_AXIS);
        if (!nrec || !ax) { o.set_infra("leg 1 without phase space"); return; }
        size_t rec = nrec - 1;
        Cfg c2 = base;
        c2.startfile = "leg1.h5";
        c2.output = "leg2.h5";
        c2.outstep = r.pick(std::vector<long>{1, 2, 100}); c2.saveps = 0;
        c2.verbose = r.chance(0.4);     // (observer options of the continued run must not matter)
        std::string recdesc = "last";
        if (recmode >= 2 && nrec > 1) {
            // candidates: records whose step is a multiple of renorm (when > 0)
            std::vector<size_t> cand;
            for (size_t i = 0; i < nrec; i++) {
                unsigned st = (unsigned)std::lround(ax->at(i) * x.d.steps);
                if (st < x.S && st > 0 && (base.renorm <= 0 || st % (unsigned)base.renorm == 0)) cand.push_back(i);
            }
            if (!cand.empty()) {
                rec = cand[(size_t)r.range(0, (long)cand.size() - 1)];
                c2.has_startstep = true;
                c2.startstep = recmode == 2 ? (long)rec : (long)rec - (long)nrec;
                recdesc = recmode == 2 ? "index" : "negative";
            }
        }
        // the same records stored with another element type (a file converted by numpy/h5py, or written by a double-precision
        // build): "loads exactly the stored values" - every float32 value survives the round trip through float64
        if (r.chance(0.15)) {
            auto ps = leg1.get(PS_DATA);
            if (ps && ps->dims.size() >= 3) {
                std::vector<float> all(ps->count());
                for (size_t i = 0; i < all.size(); i++) all[i] = (float)ps->at(i);
                std::vector<unsigned long long> dims(ps->dims.begin(), ps->dims.end());
                if (h5_write_as(x.rc->workdir + "/leg1d.h5", PS_DATA, dims, all, 'd')) { c2.startfile = "leg1d.h5"; o.fault("startfile_stored_as_float64"); o.probe("reach.start_file_float64"); }
            }
        }
        unsigned T1eff = (unsigned)std::lround(ax->at(rec) * x.d.steps);
        if (base.renorm > 0 && T1eff % (unsigned)base.renorm != 0) return;   // outside the property's proviso
        if (T1eff == 0 || T1eff >= x.S) return;
        unsigned T2 = x.S - T1eff;
        c2.rotations = (T2 - 0.5) / x.d.steps;
        LaunchResult r2; H5Snap leg2;
        std::string what = "split T1=" + std::to_string(T1eff) + " T2=" + std::to_string(T2) + " (leg 1 " + (by_sigint ? "interrupted" : "ended normally") +
                           ", record " + recdesc + " = " + std::to_string(rec) + "/" + std::to_string(nrec) + ", renorm " + std::to_string(base.renorm) + ")";
        if (!launch_ok(x, c2, "leg2", r2, leg2)) {
            o.hints["split"] = std::to_string(T1);
            o.fail("C11.continue_runs", what + ": continued run failed: " + r2.describe() + " " + tail(r2.err) + tail(r2.out, 200));
            return;
        }
        if ((unsigned)r2.sumi("steps_done") != T2) { o.set_infra("leg 2 executed " + std::to_string(r2.sumi("steps_done")) + " steps instead of " + std::to_string(T2)); return; }
        size_t before = o.fails.size();
        compare_loading(x, leg1, rec, leg2, what, exact);
        compare_final(x, leg2, what, exact);
        if (o.fails.size() > before && !o.hints.count("split")) o.hints["split"] = std::to_string(T1);
        std::string cls = T1eff == 1 ? "first" : T1eff == x.S - 1 ? "last" : (base.renorm > 0 && T1eff % (unsigned)base.renorm == 0) ? "renormstep" : "mid";
        o.probe("cls." + cls + (by_sigint ? ".sigint" : ".normal") + "." + recdesc + ".rn" + (base.renorm < 0 ? "off" : base.renorm == 0 ? "init" : "n") + (x.d.has_wake ? ".wake" : ""));
        if (rec + 1 != nrec) o.probe("reach.restart_from_inner_record");
        if (c2.verbose) o.probe("reach.continued_run_verbose");
        o.mixfp(r1.evhash()); o.mixfp(r2.evhash()); o.mixfp(leg2.digest(all_but({})));
        unlink((x.rc->workdir + "/leg2.h5").c_str());
    }

    void do_fault(X& x, const std::string& spec) const {
        Outcome& o = *x.o;
        auto parts = split(spec, ':');
        std::string kind = parts[0];
        long arg = parts.size() > 1 ? atol(parts[1].c_str()) : 0;
        // a good first leg to damage
        unsigned T1 = std::max(1u, x.S / 2);
        Cfg c1 = x.cfg; c1.output = "good.h5"; c1.rotations = (T1 - 0.5) / x.d.steps; c1.saveps = 1; c1.outstep = 2;
        if (kind == "multibunch") { c1.currents = {1e-3, 2e-3}; if (arg % 3 == 0) c1.currents = {1e-3, 0, 2e-3, 1e-3}; }
        // an earlier leg with k^2 bunches on a grid k times smaller holds exactly as many values as one bunch on this grid
        if (kind == "multibunch_samecount") {
            long k = (x.cfg.grid % 3 == 0 && arg % 2) ? 3 : 2;
            if (x.cfg.grid % k != 0 || x.cfg.grid / k < 8) { kind = "multibunch"; c1.currents = {1e-3, 2e-3}; }
            else { c1.grid = x.cfg.grid / k; c1.currents.assign((size_t)(k * k), 1e-3); c1.padding = 2; c1.gap = 0; c1.wallcond = 0; c1.collimator = 0; }
        }
        if (kind == "gridsize") { long g = x.cfg.grid; long opts[4] = {g + 3, std::max(8L, g - 2), std::max(8L, g / 2), g * 2}; c1.grid = opts[arg % 4]; if (c1.grid == g) c1.grid = g + 1; }
        LaunchResult r1; H5Snap good;
        if (!launch_ok(x, c1, "good", r1, good)) { o.set_infra("cannot produce start file for fault " + kind + ": " + r1.describe() + tail(r1.err)); return; }
        std::string src = read_file(x.rc->workdir + "/good.h5");
        std::string start = x.rc->workdir + "/start.h5";
        unlink(start.c_str());
        Cfg c2 = x.cfg;
        c2.startfile = "start.h5"; c2.output = "cont.h5"; c2.rotations = (2 - 0.5) / x.d.steps;
        Launch l = make_launch(c2, x.rc->workdir, "cont", x.entropy, x.planner);
        bool expect_refusal = true;
        if (kind == "missing") { /* nothing written */ }
        else if (kind == "empty") write_file(start, "");
        else if (kind == "trunc") { size_t cut = src.size() > 16 ? 8 + (size_t)arg % (src.size() - 8) : 0; write_file(start, src.substr(0, cut)); }
        else if (kind == "garbage") { Rng g((uint64_t)arg); std::string s(4096, ' '); for (auto& ch : s) ch = (char)g.range(0, 255); write_file(start, s); }
        else if (kind == "nops") h5_write_f32(start, "/Other/data", {2, 4, 4}, std::vector<float>(32, 1.f));
        else if (kind == "norecords") h5_write_f32(start, "/PhaseSpace/data", {0, (unsigned long long)x.cfg.grid, (unsigned long long)x.cfg.grid}, {});
        else if (kind == "notfloat") h5_write_f32(start, "/PhaseSpace/data", {(unsigned long long)x.cfg.grid, (unsigned long long)x.cfg.grid}, std::vector<float>((size_t)(x.cfg.grid * x.cfg.grid), 1.f));
        else if (kind == "multibunch" || kind == "multibunch_samecount" || kind == "gridsize") write_file(start, src);
        else if (kind == "eio") { write_file(start, src); l.rt.fault_path = "start.h5"; l.rt.fault_kind = 2; l.rt.fault_nth = arg % 6; }
        else if (kind == "eacces") { write_file(start, src); l.rt.fault_path = "start.h5"; l.rt.fault_kind = 1; l.rt.fault_nth = -1; l.rt.fault_errno = 13; }   // open() fails: permission denied
        else if (kind == "short") { write_file(start, src); l.rt.fault_path = "start.h5"; l.rt.fault_kind = 3; l.rt.fault_nth = arg % 6; expect_refusal = false; }
        unlink((x.rc->workdir + "/cont.h5").c_str());
        LaunchResult r = run_launch(l);
        o.launches++;
        o.checks++;
        bool fired = r.sumi("faults_fired") > 0;
        if ((kind == "eio") && !fired) expect_refusal = false;   // fault index beyond the reads actually made
        std::string what = "start file fault '" + spec + "'";
        if (!r.exited) { o.hints["fault"] = spec; o.fail("C11.refusal_clean_exit", what + ": process died: " + r.describe() + " " + tail(r.err)); return; }
        bool started = log_has(r.out, "Starting the simulation");
        bool results = access((x.rc->workdir + "/cont.h5").c_str(), F_OK) == 0;
        if (expect_refusal) {
            o.fault("startfile_" + kind);
            o.probe("cls.fault." + kind);
            if (started || results || r.sumi("steps_done") > 0) { o.hints["fault"] = spec; o.fail("C11.refusal", what + ": not refused, the program went on to simulate (" + std::string(started ? "'Starting the simulation' printed" : "results file created") + ")"); }
            std::string msgs = r.out + r.err;
            bool named = log_has(msgs, "rror") || log_has(msgs, "not") || log_has(msgs, "unable") || log_has(msgs, "HDF5-DIAG");
            if (!named) { o.hints["fault"] = spec; o.fail("C11.refusal_message", what + ": refused without any message; output: " + tail(msgs)); }
        } else {
            if (kind == "short" && fired) { o.fault("startfile_short_read"); o.probe("cls.fault.short"); }
            // transparent fault (or fault that did not fire): the continuation must work like the undamaged one
            if (r.code != 0 || !started || !results) { o.hints["fault"] = spec; o.fail("C11.short_read_transparent", what + ": continuation failed although the file is intact: " + r.describe() + " " + tail(r.err)); return; }
            H5Snap cont = h5_read(x.rc->workdir + "/cont.h5");
            // same continuation without the fault
            Launch l2 = make_launch(c2, x.rc->workdir, "cont0", x.entropy, x.planner);
            l2.args = c2.args();
            Cfg c3 = c2; c3.output = "cont0.h5"; l2.args = c3.args();
            LaunchResult r0 = run_launch(l2);
            o.launches++;
            H5Snap cont0 = h5_read(x.rc->workdir + "/cont0.h5");
            if (cont.ok && cont0.ok) {
                auto diff = h5_diff(cont, cont0, all_but({"/Info/Parameters@output"}));
                if (!diff.empty()) { o.hints["fault"] = spec; o.fail("C11.short_read_transparent", what + ": result differs from the fault-free continuation in " + diff[0]); }
            }
        }
        o.mixfp(r.evhash());
    }

    Outcome run(const Plan& plan, RunCtx& rc) const override {
        Outcome o;
        X x;
        x.rc = &rc; x.o = &o;
        x.cfg = Cfg::from_plan(plan);
        x.d = derive(x.cfg);
        x.entropy = plan.getu("entropy"); x.planner = (int)plan.geti("planner");
        x.S = x.d.laststep;
        if (x.S < 2) { o.discard("run too short"); return o; }
        // reference: the uninterrupted run, recording every step (also gives the hook index of each step end)
        {
            Cfg c = x.cfg; c.output = "ref.h5"; c.outstep = 1; c.saveps = 1;
            Launch l = make_launch(c, rc.workdir, "ref", x.entropy, x.planner);
            l.rt.text_log = true;
            LaunchResult r = run_launch(l);
            o.launches++; o.simsteps += r.sumi("steps_done");
            x.ref = h5_read(rc.workdir + "/ref.h5");
            if (!r.exited || r.code != 0 || !x.ref.ok || (unsigned)r.sumi("steps_done") != x.S) { o.set_infra("reference run failed: " + r.describe() + tail(r.err)); return o; }
            long idx = 0;
            // the reference has outstep=1; legs use other cadences, so hook indices must be found per leg: we only need
            // "raise at the k-th step_done", which is schedule independent if expressed by label count -> translate below
            for (auto& line : split(unesc(r.sum["text"]), '\n')) {
                if (!starts_with(line, "P ")) continue;
                if (line == "P step_done") x.stepdone_idx.push_back(idx);
                idx++;
            }
            o.mixfp(r.evhash()); o.mixfp(x.ref.digest());
            if (auto ps = x.ref.get(PS_DATA)) {
                size_t n = ps->rowlen();
                double s0 = 0;
                for (size_t i = 0; i < n; i++) s0 += ps->at(i);
                for (size_t k = 1; k < ps->rows(); k++) {
                    double sk = 0, prev = 0;
                    for (size_t i = 0; i < n; i++) { sk += ps->at(k * n + i); prev += ps->at((k - 1) * n + i); }
                    x.drift = std::max(x.drift, std::fabs(sk / prev - 1));
                    x.drift = std::max(x.drift, std::fabs(sk / s0 - 1));
                }
            }
        }
        uint64_t sseed = plan.getu("sseed");
        std::vector<long> splits;
        if (plan.get("splits") != "none") splits = plan.getlist("splits");
        bool all = plan.get("splits").empty();
        if (all) for (unsigned t = 1; t < x.S; t++) splits.push_back(t);
        for (long t : splits) {
            unsigned T1 = 1 + (unsigned)((t - 1) % (long)(x.S - 1));
            do_split_wrapped(x, T1, Rng(Rng::mix(sseed, T1)));
            if (o.infra) return o;
        }
        if (all || plan.geti("faults_too", 0)) {
            for (auto& f : split(plan.get("faults"), ',')) { if (!f.empty()) do_fault(x, f); if (o.infra) return o; }
        } else if (plan.has("only_fault")) do_fault(x, plan.get("only_fault"));
        o.simperiods = o.simsteps / x.d.steps;
        o.nontrivial = true;
        o.shape = "";
        o.probes["enum.splits"] += (long)splits.size();
        if (x.d.has_wake) o.probe("reach.with_wake");
        o.sample = x.cfg.summary() + " S=" + std::to_string(x.S) + " splits=" + (all ? "all" : plan.get("splits")) + " faults=" + plan.get("faults");
        return o;
    }

    // leg 1 uses its own cadence, so the hook index of the k-th step end differs from the reference's:
    // find it with a dry launch of leg 1's configuration only when leg 1 is to be interrupted.
    void do_split_wrapped(X& x, unsigned T1, Rng r) const {
        // peek at the choices do_split will make (same generator state)
        Rng peek = r;
        bool by_sigint = peek.chance(0.4);
        int recmode = (int)peek.range(0, 3);
        long o1 = peek.pick(std::vector<long>{1, 2, 3});
        if (by_sigint) {
            Cfg c1 = x.cfg; c1.output = "dry.h5"; c1.outstep = o1;
            Rng p2 = peek; c1.saveps = recmode >= 2 ? 1 : p2.pick(std::vector<long>{0, 1, 2});
            Launch l = make_launch(c1, x.rc->workdir, "dry", x.entropy, x.planner);
            l.rt.text_log = true;
            LaunchResult r0 = run_launch(l);
            x.o->launches++;
            std::vector<long> idxs; long idx = 0;
            for (auto& line : split(unesc(r0.sum["text"]), '\n')) {
                if (!starts_with(line, "P ")) continue;
                if (line == "P step_done") idxs.push_back(idx);
                idx++;
            }
            if (idxs.size() != x.S) { x.o->set_infra("dry launch of leg 1 inconsistent"); return; }
            x.stepdone_idx = idxs;
        }
        do_split(x, T1, r);
    }

    std::vector<Plan> shrink_candidates(const Plan& p, const Outcome& last) const override {
        std::vector<Plan> out;
        if (last.hints.count("split") && (p.get("splits").empty() || p.getlist("splits").size() > 1)) {
            Plan q = p; q.set("splits", last.hints.at("split")); q.erase("only_fault"); out.push_back(q);
        }
        if (last.hints.count("fault") && !p.has("only_fault")) {
            Plan q = p; q.set("splits", "none"); q.set("only_fault", last.hints.at("fault")); out.push_back(q);
        }
        Cfg c = Cfg::from_plan(p);
        auto with = [&](std::function<void(Cfg&)> f) { Cfg d = c; Plan q = p; f(d); d.to_plan(q); if (!(q == p)) out.push_back(q); };
        with([](Cfg& d) { d.gap = 0; d.wallcond = 0; d.collimator = 0; d.useCSR = true; });
        with([](Cfg& d) { d.tdamp = 0; });
        with([](Cfg& d) { d.shiftx = d.shifty = 0; });
        with([](Cfg& d) { d.grid = 12; });
        with([](Cfg& d) { d.interp = 4; d.deriv = 4; d.clamp = false; d.zoom = 1; d.pssize = 12; d.padding = 2; d.roundpad = true; d.linearRF = true; });
        with([](Cfg& d) { Derived dd = derive(d); if (dd.laststep > 3) d.rotations = (dd.laststep - 1 - 0.5) / dd.steps; });
        return out;
    }
};

ScenarioRegistrar reg(new C11());

} // namespace
} // namespace sim
